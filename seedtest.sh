#!/bin/sh
# usage: seedtest.sh <PROP> <srcdir-with-OUT> <name>
# Confirms a seeded change in a scratch worktree (tests pass, demo fails with / passes without),
# stores it under /verif/seeded/<name>/ and runs the property's quick check with the patch applied to /repo.
set -e
prop=$1; src=$2; name=$3
dst=/verif/seeded/$name
mkdir -p $dst
cp $src/OUT/patch.diff $dst/patch.diff
cp $src/OUT/zz_seed_demo_test.go $dst/zz_seed_demo_test.go
cp $src/OUT/meta.json $dst/meta.agent.json
export GOFLAGS=-mod=mod GOPROXY=off
wt=/tmp/seedconfirm-$$
git -C /repo worktree add -q --detach $wt HEAD
cd $wt
echo "== demo WITHOUT the change"
cp $dst/zz_seed_demo_test.go zygo/
if timeout 300 go test -vet=off -count=1 -run TestSeedDemo ./zygo >/tmp/seed.out 2>&1; then echo "demo passes without change: OK"; else echo "DEMO FAILS WITHOUT CHANGE"; tail -5 /tmp/seed.out; fi
git apply $dst/patch.diff
echo "== demo WITH the change"
if timeout 300 go test -vet=off -count=1 -run TestSeedDemo ./zygo >/tmp/seed.out 2>&1; then echo "DEMO PASSES WITH CHANGE (bad)"; else echo "demo fails with change: OK"; grep -m3 -- "--- FAIL\|panic\|seed" /tmp/seed.out | cut -c1-200; fi
rm zygo/zz_seed_demo_test.go
echo "== existing suite WITH the change"
timeout 900 go test -vet=off -count=1 ./zygo 2>&1 | tail -1
cd /
git -C /repo worktree remove --force $wt
echo "== my check with the patch applied to /repo"
if ! git -C /repo diff --quiet; then echo "/repo not clean"; exit 1; fi
git -C /repo apply $dst/patch.diff
cd /verif && ZVC_NOEVIDENCE=1 ./bin/zvc check -prop $prop -tier quick > /tmp/seedcheck.out 2>&1 && echo "CHECK EXIT 0 (missed)" || echo "CHECK EXIT 1 (caught)"
grep "^VIOLATION" /tmp/seedcheck.out | cut -c1-250 | head -5
tail -1 /tmp/seedcheck.out
git -C /repo checkout -- .
