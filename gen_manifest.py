#!/usr/bin/env python3
"""Regenerates MANIFEST.json from claims.json (the per-property claim texts)."""
import json, subprocess
claims = json.load(open('/verif/claims.json'))
props = [json.loads(l) for l in open('/verif/properties.jsonl')]
try:
    hooks = subprocess.check_output(['git','-C','/repo','log','--format=%H %s','--','zygo/zz_contracts_verif.go'],text=True).split('\n')
    commits = [l.split()[0] for l in hooks if l.strip()]
except Exception:
    commits = []
m = {
 "version": 1,
 "setup_cmd": "cd /verif/engine && GOFLAGS=-mod=vendor GOPROXY=off go build -o /verif/bin/zvc .",
 "hooks": {
  "guard": "verif",
  "enable": "go build tag 'verif' (packages.Load with -tags=verif); the only guarded file is zygo/zz_contracts_verif.go, a comment-only file holding the //@ contracts; no executable hook exists",
  "baseline_off_cmd": "cd /repo && GOFLAGS=-mod=mod GOPROXY=off go test -vet=off -count=1 ./...",
  "source_commits": commits,
  "add_only": True
 },
 "engines": [{"name": "zvc", "path": "/verif/engine", "serves_properties": sorted(claims['claimed'].keys()),
   "kind_free_text": "contract-based deductive verifier for Go written for this task: weakest-precondition style symbolic execution of go/ssa (x/tools v0.29.0, vendored) with machine integers as bit-vectors, IEEE doubles, Burstall-Bornat heap, loops cut at invariants, callees replaced by their contracts; obligations discharged by z3 4.8.12 / z3 5.1.0 / cvc5 1.0.3; counterexamples replayed on the real code with go test -overlay"}],
 "checks": [],
 "not_applicable": [],
 "notes": claims.get('notes','')
}
for p in props:
    pid = p['id']
    if pid in claims['claimed']:
        c = claims['claimed'][pid]
        m['checks'].append({
          "property_id": pid,
          "quick_cmd": f"./bin/zvc check -prop {pid} -tier quick",
          "thorough_cmd": f"./bin/zvc check -prop {pid} -tier thorough",
          "evidence_file": f"/verif/evidence/{pid}.json",
          "replay_cmd_template": "cat {path}",
          "engine": "zvc",
          "level_claimed": {"category": "proof", "text": c['text'], "design_ref": c.get('design_ref', 'DESIGN.md section 5 ('+pid+')')},
          "level_note": c['note'],
          "technique": c.get('technique', 'contract-based deductive verification: pre/postconditions and invariants on the real functions, VCs generated from go/ssa, discharged by SMT (z3/cvc5)')
        })
    else:
        m['not_applicable'].append({"property_id": pid, "reason": claims['not_applicable'].get(pid, 'not yet covered by contracts in this build')})
json.dump(m, open('/verif/MANIFEST.json','w'), indent=1)
print("checks:", len(m['checks']), "n/a:", len(m['not_applicable']))
