package main

// spec.go: translation of contract expressions (Go expression syntax plus
// implies/forall/old/ite/typeis/...) into SMT terms over the VC's heap model.

import (
	"fmt"
	"go/ast"
	"go/constant"
	"go/parser"
	"go/token"
	"go/types"
	"math"
	"strconv"
	"strings"
)

// TV is a typed term.  Ty == nil means an untyped numeric constant.
type TV struct {
	T     string
	Ty    types.Type
	Const *constant.Value
}

type SpecEnv struct {
	vc     *VC
	params map[string]TV // entry values of parameters (for entry(x))
	vars   map[string]TV
	heap   *Heap
	old    *Heap
	inOld  bool
	depth  int
}

func (e *SpecEnv) with(name string, tv TV) *SpecEnv {
	n := *e
	n.vars = make(map[string]TV, len(e.vars)+1)
	for k, v := range e.vars {
		n.vars[k] = v
	}
	n.vars[name] = tv
	return &n
}

type specErr struct{ msg string }

func (e *SpecEnv) fail(f string, a ...interface{}) {
	panic(specErr{fmt.Sprintf(f, a...)})
}

// Bool translates a contract expression that must be boolean.
func (e *SpecEnv) Bool(src string) (term string, err error) {
	defer func() {
		if r := recover(); r != nil {
			if se, ok := r.(specErr); ok {
				err = fmt.Errorf("%s  [in: %s]", se.msg, src)
				return
			}
			panic(r)
		}
	}()
	x, perr := parser.ParseExpr(rewriteImplies(src))
	if perr != nil {
		return "", fmt.Errorf("parse %q: %v", src, perr)
	}
	tv := e.expr(x)
	if tv.Ty == nil || e.vc.sortOf(tv.Ty) != sBool {
		return "", fmt.Errorf("not boolean: %s", src)
	}
	return tv.T, nil
}

func (e *SpecEnv) Any(src string) (tv TV, err error) {
	defer func() {
		if r := recover(); r != nil {
			if se, ok := r.(specErr); ok {
				err = fmt.Errorf("%s  [in: %s]", se.msg, src)
				return
			}
			panic(r)
		}
	}()
	x, perr := parser.ParseExpr(rewriteImplies(src))
	if perr != nil {
		return TV{}, fmt.Errorf("parse %q: %v", src, perr)
	}
	return e.expr(x), nil
}

var tBool = types.Typ[types.Bool]
var tInt = types.Typ[types.Int]
var tF64 = types.Typ[types.Float64]
var tStr = types.Typ[types.String]

func (e *SpecEnv) resolveType(x ast.Expr) types.Type {
	switch t := x.(type) {
	case *ast.Ident:
		if o := types.Universe.Lookup(t.Name); o != nil {
			if tn, ok := o.(*types.TypeName); ok {
				return tn.Type()
			}
		}
		if o := e.vc.ctx.tpkg.Scope().Lookup(t.Name); o != nil {
			if tn, ok := o.(*types.TypeName); ok {
				return tn.Type()
			}
		}
	case *ast.StarExpr:
		if b := e.resolveType(t.X); b != nil {
			return types.NewPointer(b)
		}
	case *ast.ArrayType:
		if t.Len == nil {
			if b := e.resolveType(t.Elt); b != nil {
				return types.NewSlice(b)
			}
		}
	case *ast.ParenExpr:
		return e.resolveType(t.X)
	case *ast.SelectorExpr:
		if id, ok := t.X.(*ast.Ident); ok {
			for _, imp := range e.vc.ctx.tpkg.Imports() {
				if imp.Name() == id.Name {
					if o := imp.Scope().Lookup(t.Sel.Name); o != nil {
						if tn, ok := o.(*types.TypeName); ok {
							return tn.Type()
						}
					}
				}
			}
		}
	}
	return nil
}

func (e *SpecEnv) typeFromString(s string) types.Type {
	x, err := parser.ParseExpr(s)
	if err != nil {
		e.fail("bad type %q", s)
	}
	t := e.resolveType(x)
	if t == nil {
		e.fail("unknown type %q", s)
	}
	return t
}

func (e *SpecEnv) constTV(v constant.Value) TV {
	return TV{Const: &v}
}

// coerce an untyped constant to type t.
func (e *SpecEnv) coerce(tv TV, t types.Type) TV {
	if tv.Ty != nil || tv.Const == nil {
		return tv
	}
	v := *tv.Const
	if bits, _, ok := intInfo(t); ok {
		if i, exact := constant.Int64Val(constant.ToInt(v)); exact {
			return TV{T: bvLit(uint64(i), bits), Ty: t}
		}
		if u, exact := constant.Uint64Val(constant.ToInt(v)); exact {
			return TV{T: bvLit(u, bits), Ty: t}
		}
		e.fail("constant %s does not fit", v)
	}
	if isFloat(t) {
		f, _ := constant.Float64Val(v)
		return TV{T: f64Lit(f), Ty: t}
	}
	if e.vc.sortOf(t) == sRef {
		if i, ok := constant.Int64Val(constant.ToInt(v)); ok {
			return TV{T: strconv.FormatInt(i, 10), Ty: t}
		}
	}
	e.fail("cannot coerce constant %s to %s", v, t)
	return tv
}

func f64Lit(f float64) string {
	if math.IsNaN(f) {
		return "(_ NaN 11 53)"
	}
	if math.IsInf(f, 1) {
		return "(_ +oo 11 53)"
	}
	if math.IsInf(f, -1) {
		return "(_ -oo 11 53)"
	}
	b := math.Float64bits(f)
	return fmt.Sprintf("(fp #b%b #b%011b #b%052b)", b>>63, (b>>52)&0x7ff, b&((1<<52)-1))
}

func (e *SpecEnv) defaultType(tv TV) TV {
	if tv.Ty != nil || tv.Const == nil {
		return tv
	}
	if (*tv.Const).Kind() == constant.Float {
		return e.coerce(tv, tF64)
	}
	return e.coerce(tv, tInt)
}

func (e *SpecEnv) unify(a, b TV) (TV, TV) {
	if a.Ty == nil && b.Ty != nil {
		a = e.coerce(a, b.Ty)
	} else if b.Ty == nil && a.Ty != nil {
		b = e.coerce(b, a.Ty)
	} else if a.Ty == nil && b.Ty == nil {
		a, b = e.defaultType(a), e.defaultType(b)
	}
	return a, b
}

func (e *SpecEnv) curHeap() *Heap {
	if e.inOld {
		return e.old
	}
	return e.heap
}

func derefStruct(t types.Type) (*types.Struct, types.Type, bool) {
	if p, ok := t.Underlying().(*types.Pointer); ok {
		if st, ok := p.Elem().Underlying().(*types.Struct); ok {
			return st, p.Elem(), true
		}
	}
	return nil, nil, false
}

func findField(st *types.Struct, name string) int {
	for i := 0; i < st.NumFields(); i++ {
		if st.Field(i).Name() == name {
			return i
		}
	}
	return -1
}

func (e *SpecEnv) selectField(x TV, name string) TV {
	vc := e.vc
	if st, elemT, ok := derefStruct(x.Ty); ok {
		i := findField(st, name)
		if i < 0 {
			// promoted through embedded field
			for j := 0; j < st.NumFields(); j++ {
				if st.Field(j).Embedded() {
					inner := e.selectField(x, st.Field(j).Name())
					if s2, _, ok2 := derefStruct(inner.Ty); ok2 && findField(s2, name) >= 0 {
						return e.selectField(inner, name)
					}
					if s2, ok2 := inner.Ty.Underlying().(*types.Struct); ok2 && findField(s2, name) >= 0 {
						return e.selectField(inner, name)
					}
				}
			}
			e.fail("no field %s in %s", name, x.Ty)
		}
		arr := vc.fieldArr(vc.structName(elemT, st), st.Field(i))
		ver := e.curHeap().get(arr)
		r := TV{T: fmt.Sprintf("(select %s %s)", ver, x.T), Ty: st.Field(i).Type()}
		e.assumeWF(r)
		if _, isPtr := r.Ty.Underlying().(*types.Pointer); isPtr && !strings.Contains(r.T, "?") {
			// every reference stored in a heap array is older than that array version
			if b, ok := vc.arrBound[ver]; ok && b != "" {
				// (only for objects that existed when that version came into being: a
				// callee under a pure/modifies contract may have allocated x since, and
				// its fields then hold whatever the callee put there)
				vc.assume(fmt.Sprintf("(=> (< %s %s) (and (>= %s 0) (< %s %s)))", x.T, b, r.T, r.T, b))
				if cur := e.curHeap().alloc; cur != "" {
					vc.assume(fmt.Sprintf("(and (>= %s 0) (< %s %s))", r.T, r.T, cur))
				}
			} else if strings.HasSuffix(ver, "@stable|") {
				// set-once field: an object that existed at entry got its value before entry
				vc.assume(fmt.Sprintf("(=> (< %s alloc0) (and (>= %s 0) (< %s alloc0)))", x.T, r.T, r.T))
			}
		}
		return r
	}
	if st, ok := x.Ty.Underlying().(*types.Struct); ok {
		i := findField(st, name)
		if i < 0 {
			e.fail("no field %s in %s", name, x.Ty)
		}
		srt := vc.structSort(x.Ty, st)
		return TV{T: fmt.Sprintf("(|%s.%s| %s)", strings.Trim(srt, "|"), name, x.T), Ty: st.Field(i).Type()}
	}
	e.fail("cannot select .%s from %v", name, x.Ty)
	return TV{}
}

// assumeWF records the machine-level well-formedness of a value read from the
// heap by a specification (lengths non-negative, ...), as loads in code do.
func (e *SpecEnv) assumeWF(r TV) {
	if strings.Contains(r.T, "?") || e.curHeap() == nil {
		return
	}
	switch r.Ty.Underlying().(type) {
	case *types.Slice:
		e.vc.wf("true", r.T, r.Ty, e.curHeap().alloc)
	case *types.Basic:
		if isString(r.Ty) {
			e.vc.wf("true", r.T, r.Ty, e.curHeap().alloc)
		}
	}
}

func (e *SpecEnv) expr(x ast.Expr) TV {
	vc := e.vc
	switch n := x.(type) {
	case *ast.ParenExpr:
		return e.expr(n.X)
	case *ast.BasicLit:
		switch n.Kind {
		case token.INT, token.FLOAT, token.CHAR:
			return e.constTV(constant.MakeFromLiteral(n.Value, n.Kind, 0))
		case token.STRING:
			s, _ := strconv.Unquote(n.Value)
			return TV{T: vc.strLit(s), Ty: tStr}
		}
	case *ast.Ident:
		switch n.Name {
		case "true", "false":
			return TV{T: n.Name, Ty: tBool}
		case "nil":
			return TV{T: "nil", Ty: types.Typ[types.UntypedNil]}
		}
		if tv, ok := e.vars[n.Name]; ok {
			return tv
		}
		if o := vc.ctx.tpkg.Scope().Lookup(n.Name); o != nil {
			switch ob := o.(type) {
			case *types.Const:
				tv := e.constTV(ob.Val())
				if isString(ob.Type()) {
					return TV{T: vc.strLit(constant.StringVal(ob.Val())), Ty: ob.Type()}
				}
				if b, ok := ob.Type().(*types.Basic); !ok || b.Info()&types.IsUntyped == 0 {
					return e.coerce(tv, ob.Type())
				}
				return tv
			case *types.Var:
				return TV{T: vc.globalValue(e.curHeap(), ob), Ty: ob.Type()}
			}
		}
		e.fail("unknown identifier %s", n.Name)
	case *ast.SelectorExpr:
		// math.MaxInt64 style constants
		if id, ok := n.X.(*ast.Ident); ok {
			if _, isVar := e.vars[id.Name]; !isVar {
				for _, imp := range vc.ctx.tpkg.Imports() {
					if imp.Name() == id.Name {
						if o, ok := imp.Scope().Lookup(n.Sel.Name).(*types.Const); ok {
							return e.constTV(o.Val())
						}
					}
				}
			}
		}
		return e.selectField(e.expr(n.X), n.Sel.Name)
	case *ast.StarExpr:
		p := e.expr(n.X)
		pt, ok := p.Ty.Underlying().(*types.Pointer)
		if !ok {
			e.fail("deref of non-pointer")
		}
		if _, isSt := pt.Elem().Underlying().(*types.Struct); isSt {
			e.fail("deref of struct pointer as value not supported")
		}
		return TV{T: fmt.Sprintf("(select %s %s)", e.curHeap().get(vc.cellArr(pt.Elem())), p.T), Ty: pt.Elem()}
	case *ast.UnaryExpr:
		v := e.expr(n.X)
		switch n.Op {
		case token.NOT:
			return TV{T: "(not " + v.T + ")", Ty: tBool}
		case token.SUB:
			if v.Ty == nil {
				c := constant.UnaryOp(token.SUB, *v.Const, 0)
				return e.constTV(c)
			}
			if isFloat(v.Ty) {
				return TV{T: "(fp.neg " + v.T + ")", Ty: v.Ty}
			}
			return TV{T: "(bvneg " + v.T + ")", Ty: v.Ty}
		}
	case *ast.BinaryExpr:
		return e.binary(n)
	case *ast.IndexExpr:
		b := e.expr(n.X)
		switch u := b.Ty.Underlying().(type) {
		case *types.Slice:
			i := e.coerce(e.expr(n.Index), tInt)
			return TV{T: fmt.Sprintf("(select (select %s (sarr %s)) (bvadd (soff %s) %s))", e.curHeap().get(vc.elemsArr(u.Elem())), b.T, b.T, i.T), Ty: u.Elem()}
		case *types.Array:
			i := e.coerce(e.expr(n.Index), tInt)
			return TV{T: fmt.Sprintf("(select %s %s)", b.T, i.T), Ty: u.Elem()}
		case *types.Map:
			k := e.coerce(e.expr(n.Index), u.Key())
			_, val, _ := vc.mapArrs(u)
			r := TV{T: fmt.Sprintf("(select (select %s %s) %s)", e.curHeap().get(val), b.T, k.T), Ty: u.Elem()}
			e.assumeWF(r)
			return r
		case *types.Basic:
			if isString(b.Ty) {
				i := e.coerce(e.expr(n.Index), tInt)
				return TV{T: fmt.Sprintf("(str_at %s %s)", b.T, i.T), Ty: types.Typ[types.Uint8]}
			}
		case *types.Pointer:
			if at, ok := u.Elem().Underlying().(*types.Array); ok {
				i := e.coerce(e.expr(n.Index), tInt)
				return TV{T: fmt.Sprintf("(select (select %s %s) %s)", e.curHeap().get(vc.elemsArr(at.Elem())), b.T, i.T), Ty: at.Elem()}
			}
		}
		e.fail("cannot index %v", b.Ty)
	case *ast.TypeAssertExpr:
		v := e.expr(n.X)
		t := e.resolveType(n.Type)
		if t == nil {
			e.fail("unknown type in assertion")
		}
		return TV{T: vc.ifacePayload(v.T, t), Ty: t}
	case *ast.CallExpr:
		return e.call(n)
	}
	e.fail("unsupported expression %T", x)
	return TV{}
}

func (e *SpecEnv) isNilCmp(a, b TV) (TV, bool) {
	if b.T == "nil" && b.Ty == types.Typ[types.UntypedNil] {
		return a, true
	}
	if a.T == "nil" && a.Ty == types.Typ[types.UntypedNil] {
		return b, true
	}
	return TV{}, false
}

func (e *SpecEnv) eq(a, b TV) string {
	if v, ok := e.isNilCmp(a, b); ok {
		switch e.vc.sortOf(v.Ty) {
		case sIface:
			return "(iface_isnil " + v.T + ")"
		case sSlice:
			return "(= (sarr " + v.T + ") 0)"
		default:
			return "(= " + v.T + " 0)"
		}
	}
	a, b = e.unify(a, b)
	sa, sb := e.vc.sortOf(a.Ty), e.vc.sortOf(b.Ty)
	if sa != sb {
		// pointer vs interface comparison: box the pointer
		if sa == sIface && sb == sRef {
			return fmt.Sprintf("(iface_eq %s %s)", a.T, e.vc.makeIface(b.T, b.Ty))
		}
		if sb == sIface && sa == sRef {
			return fmt.Sprintf("(iface_eq %s %s)", e.vc.makeIface(a.T, a.Ty), b.T)
		}
		e.fail("comparison of different sorts %s / %s", sa, sb)
	}
	switch {
	case sa == sIface:
		return "(iface_eq " + a.T + " " + b.T + ")"
	case isFloat(a.Ty):
		return "(fp.eq " + a.T + " " + b.T + ")"
	}
	return "(= " + a.T + " " + b.T + ")"
}

func (e *SpecEnv) binary(n *ast.BinaryExpr) TV {
	switch n.Op {
	case token.LAND, token.LOR:
		a, b := e.expr(n.X), e.expr(n.Y)
		op := "and"
		if n.Op == token.LOR {
			op = "or"
		}
		return TV{T: fmt.Sprintf("(%s %s %s)", op, a.T, b.T), Ty: tBool}
	}
	a, b := e.expr(n.X), e.expr(n.Y)
	switch n.Op {
	case token.EQL:
		return TV{T: e.eq(a, b), Ty: tBool}
	case token.NEQ:
		return TV{T: "(not " + e.eq(a, b) + ")", Ty: tBool}
	}
	if a.Ty == nil && b.Ty == nil {
		switch n.Op {
		case token.ADD, token.SUB, token.MUL, token.QUO, token.REM, token.SHL, token.SHR, token.AND, token.OR, token.XOR:
			if n.Op == token.SHL || n.Op == token.SHR {
				s, _ := constant.Uint64Val(*b.Const)
				return e.constTV(constant.Shift(*a.Const, n.Op, uint(s)))
			}
			op := n.Op
			if op == token.QUO && (*a.Const).Kind() == constant.Int && (*b.Const).Kind() == constant.Int {
				op = token.QUO_ASSIGN
			}
			return e.constTV(constant.BinaryOp(*a.Const, op, *b.Const))
		}
	}
	a, b = e.unify(a, b)
	if isFloat(a.Ty) {
		var op string
		switch n.Op {
		case token.LSS:
			return TV{T: "(fp.lt " + a.T + " " + b.T + ")", Ty: tBool}
		case token.LEQ:
			return TV{T: "(fp.leq " + a.T + " " + b.T + ")", Ty: tBool}
		case token.GTR:
			return TV{T: "(fp.gt " + a.T + " " + b.T + ")", Ty: tBool}
		case token.GEQ:
			return TV{T: "(fp.geq " + a.T + " " + b.T + ")", Ty: tBool}
		case token.ADD:
			op = "fp.add"
		case token.SUB:
			op = "fp.sub"
		case token.MUL:
			op = "fp.mul"
		case token.QUO:
			op = "fp.div"
		default:
			e.fail("float op %s", n.Op)
		}
		return TV{T: e.vc.fpArith(op, a.T, b.T, e.vc.sortOf(a.Ty)), Ty: a.Ty}
	}
	if a.Ty != nil && e.vc.sortOf(a.Ty) == "Str" {
		// string order: the same uninterpreted order symbol the code's comparisons use
		switch n.Op {
		case token.LSS:
			return TV{T: fmt.Sprintf("(str_lt %s %s)", a.T, b.T), Ty: tBool}
		case token.GTR:
			return TV{T: fmt.Sprintf("(str_lt %s %s)", b.T, a.T), Ty: tBool}
		case token.LEQ:
			return TV{T: fmt.Sprintf("(not (str_lt %s %s))", b.T, a.T), Ty: tBool}
		case token.GEQ:
			return TV{T: fmt.Sprintf("(not (str_lt %s %s))", a.T, b.T), Ty: tBool}
		case token.ADD:
			return TV{T: fmt.Sprintf("(str_concat %s %s)", a.T, b.T), Ty: a.Ty}
		}
	}
	if e.vc.sortOf(a.Ty) == sRef {
		// Ref arithmetic/comparison (allocation order)
		ops := map[token.Token]string{token.LSS: "<", token.LEQ: "<=", token.GTR: ">", token.GEQ: ">="}
		if o, ok := ops[n.Op]; ok {
			return TV{T: fmt.Sprintf("(%s %s %s)", o, a.T, b.T), Ty: tBool}
		}
	}
	_, signed, ok := intInfo(a.Ty)
	if !ok {
		e.fail("operator %s on %v", n.Op, a.Ty)
	}
	pick := func(s, u string) string {
		if signed {
			return s
		}
		return u
	}
	cmp := map[token.Token]string{token.LSS: pick("bvslt", "bvult"), token.LEQ: pick("bvsle", "bvule"), token.GTR: pick("bvsgt", "bvugt"), token.GEQ: pick("bvsge", "bvuge")}
	if o, ok := cmp[n.Op]; ok {
		return TV{T: fmt.Sprintf("(%s %s %s)", o, a.T, b.T), Ty: tBool}
	}
	ar := map[token.Token]string{token.ADD: "bvadd", token.SUB: "bvsub", token.MUL: "bvmul", token.QUO: pick("bvsdiv", "bvudiv"), token.REM: pick("bvsrem", "bvurem"),
		token.AND: "bvand", token.OR: "bvor", token.XOR: "bvxor", token.SHL: "bvshl", token.SHR: pick("bvashr", "bvlshr")}
	if o, ok := ar[n.Op]; ok {
		return TV{T: fmt.Sprintf("(%s %s %s)", o, a.T, b.T), Ty: a.Ty}
	}
	e.fail("unsupported operator %s", n.Op)
	return TV{}
}

func (e *SpecEnv) call(n *ast.CallExpr) TV {
	vc := e.vc
	name := ""
	if id, ok := n.Fun.(*ast.Ident); ok {
		name = id.Name
	}
	arg := func(i int) TV { return e.expr(n.Args[i]) }
	switch name {
	case "implies":
		return TV{T: fmt.Sprintf("(=> %s %s)", arg(0).T, arg(1).T), Ty: tBool}
	case "iff":
		return TV{T: fmt.Sprintf("(= %s %s)", arg(0).T, arg(1).T), Ty: tBool}
	case "ite":
		a, b := e.unify(arg(1), arg(2))
		return TV{T: fmt.Sprintf("(ite %s %s %s)", arg(0).T, a.T, b.T), Ty: a.Ty}
	case "old":
		n2 := *e
		n2.inOld = true
		return n2.expr(n.Args[0])
	case "entry":
		// entry(p): the value parameter p had when the function was entered
		// (inside loop invariants a bare name means the variable's current value)
		id, ok := n.Args[0].(*ast.Ident)
		if !ok {
			e.fail("entry(param)")
		}
		if tv, ok := e.params[id.Name]; ok {
			return tv
		}
		if tv, ok := e.vars[id.Name]; ok {
			return tv
		}
		e.fail("entry: unknown parameter %s", id.Name)
	case "let":
		// let(x, value, body): value is evaluated in the enclosing state (so a
		// post-state value can be used inside old(...))
		id, ok := n.Args[0].(*ast.Ident)
		if !ok || len(n.Args) != 3 {
			e.fail("let(x, value, body)")
		}
		v := e.defaultType(arg(1))
		return e.with(id.Name, v).expr(n.Args[2])
	case "forall", "exists", "forallref", "existsref":
		id, ok := n.Args[0].(*ast.Ident)
		if !ok {
			e.fail("%s: first argument must be a variable", name)
		}
		e.depth++
		bv := fmt.Sprintf("|%s?%d_%d|", id.Name, e.depth, vc.nfresh)
		vc.nfresh++
		srt, ty := sBV64, types.Type(tInt)
		if strings.HasSuffix(name, "ref") {
			srt, ty = sRef, types.NewPointer(types.NewStruct(nil, nil))
		}
		var body TV
		if len(n.Args) == 3 {
			ty = e.resolveType(n.Args[1])
			if ty == nil {
				e.fail("%s: bad type", name)
			}
			srt = vc.sortOf(ty)
			body = e.with(id.Name, TV{T: bv, Ty: ty}).expr(n.Args[2])
		} else {
			body = e.with(id.Name, TV{T: bv, Ty: ty}).expr(n.Args[1])
		}
		q := "forall"
		if strings.HasPrefix(name, "exists") {
			q = "exists"
		}
		return TV{T: fmt.Sprintf("(%s ((%s %s)) %s)", q, bv, srt, body.T), Ty: tBool}
	case "len":
		v := arg(0)
		switch u := v.Ty.Underlying().(type) {
		case *types.Slice:
			return TV{T: "(slen " + v.T + ")", Ty: tInt}
		case *types.Map:
			_, _, ln := vc.mapArrs(u)
			return TV{T: fmt.Sprintf("(select %s %s)", e.curHeap().get(ln), v.T), Ty: tInt}
		case *types.Basic:
			return TV{T: "(strlen " + v.T + ")", Ty: tInt}
		}
		e.fail("len of %v", v.Ty)
	case "cap":
		return TV{T: "(scap " + arg(0).T + ")", Ty: tInt}
	case "has":
		m := arg(0)
		mt, ok := m.Ty.Underlying().(*types.Map)
		if !ok {
			e.fail("has: not a map")
		}
		k := e.coerce(arg(1), mt.Key())
		dom, _, _ := vc.mapArrs(mt)
		return TV{T: fmt.Sprintf("(and (not (= %s 0)) (select (select %s %s) %s))", m.T, e.curHeap().get(dom), m.T, k.T), Ty: tBool}
	case "typeis":
		v := arg(0)
		t := e.resolveType(n.Args[1])
		if t == nil {
			e.fail("typeis: unknown type")
		}
		return TV{T: fmt.Sprintf("(= (itag %s) %d)", v.T, vc.ctx.tagOf(t)), Ty: tBool}
	case "familyAgree":
		// familyAgree(x, field): every field of x's struct that points to the same
		// struct type is nil or agrees with x on `field` (generated from the struct
		// definition, so a newly added pointer field is covered automatically)
		x := arg(0)
		fid, ok := n.Args[1].(*ast.Ident)
		if !ok {
			e.fail("familyAgree(x, field)")
		}
		st, elemT, ok := derefStruct(x.Ty)
		if !ok {
			e.fail("familyAgree: not a struct pointer")
		}
		own := e.selectField(x, fid.Name)
		conj := []string{"true"}
		for i := 0; i < st.NumFields(); i++ {
			ft := st.Field(i).Type()
			if pt, isP := ft.Underlying().(*types.Pointer); isP && types.Identical(pt.Elem(), elemT) {
				fv := e.selectField(x, st.Field(i).Name())
				other := e.selectField(fv, fid.Name)
				conj = append(conj, fmt.Sprintf("(or (= %s 0) (= %s %s))", fv.T, other.T, own.T))
			}
		}
		return TV{T: "(and " + strings.Join(conj, " ") + ")", Ty: tBool}
	case "same":
		a, b := e.unify(arg(0), arg(1))
		return TV{T: fmt.Sprintf("(= %s %s)", a.T, b.T), Ty: tBool}
	case "isNaN":
		return TV{T: "(fp.isNaN " + arg(0).T + ")", Ty: tBool}
	case "isInf":
		return TV{T: "(fp.isInfinite " + arg(0).T + ")", Ty: tBool}
	case "allocated":
		// allocated(p): p was allocated before the function was entered
		return TV{T: fmt.Sprintf("(< %s %s)", arg(0).T, e.old.alloc), Ty: tBool}
	case "fresh":
		return TV{T: fmt.Sprintf("(>= %s %s)", arg(0).T, e.old.alloc), Ty: tBool}
	case "sarr":
		return TV{T: "(sarr " + arg(0).T + ")", Ty: types.NewPointer(types.NewStruct(nil, nil))}
	case "soff":
		return TV{T: "(soff " + arg(0).T + ")", Ty: tInt}
	case "ref":
		// ref(x): the reference (payload) of an interface or pointer value as a comparable Ref
		v := arg(0)
		if vc.sortOf(v.Ty) == sIface {
			return TV{T: "(ipay " + v.T + ")", Ty: types.NewPointer(types.NewStruct(nil, nil))}
		}
		return TV{T: v.T, Ty: types.NewPointer(types.NewStruct(nil, nil))}
	case "runeAt":
		// runeAt(s, i): the i-th rune of string s, as []rune(s)[i] in the code
		sv, iv := arg(0), e.coerce(arg(1), tInt)
		runes := vc.uf("str_runes", []string{sStr}, "(Array (_ BitVec 64) (_ BitVec 32))", sv.T)
		return TV{T: fmt.Sprintf("(select %s %s)", runes, iv.T), Ty: types.Typ[types.Int32]}
	case "tag":
		return TV{T: "(itag " + arg(0).T + ")", Ty: types.NewPointer(types.NewStruct(nil, nil))}
	}
	// library function modelled as an uninterpreted pure function (strings.HasPrefix ...):
	// the same symbol the code's own call to it is given
	if sel, ok := n.Fun.(*ast.SelectorExpr); ok {
		if pid, ok := sel.X.(*ast.Ident); ok {
			for _, imp := range vc.ctx.tpkg.Imports() {
				if imp.Name() != pid.Name || !pureUFPkgs[imp.Path()] {
					continue
				}
				fn, _ := imp.Scope().Lookup(sel.Sel.Name).(*types.Func)
				if fn == nil {
					break
				}
				sig := fn.Type().(*types.Signature)
				if sig.Results().Len() != 1 || sig.Params().Len() != len(n.Args) || sig.Variadic() {
					e.fail("%s: unsupported library function shape", exprString(n.Fun))
				}
				var sorts, as []string
				for i := range n.Args {
					pt := sig.Params().At(i).Type()
					a := e.coerce(arg(i), pt)
					sorts = append(sorts, vc.sortOf(pt))
					as = append(as, a.T)
				}
				rt := sig.Results().At(0).Type()
				return TV{T: vc.uf(imp.Path()+"."+sel.Sel.Name, sorts, vc.sortOf(rt), as...), Ty: rt}
			}
		}
	}
	// spec function?
	if sp, ok := vc.ctx.cf.Specs[name]; ok && sp.Macro {
		if len(n.Args) != len(sp.Params) {
			e.fail("macro %s: wrong number of arguments", name)
		}
		n2 := *e
		n2.vars = map[string]TV{}
		for i := range n.Args {
			pt := e.typeFromString(sp.PTypes[i])
			a := e.coerce(arg(i), pt)
			if a.T == "nil" {
				a.T = vc.zero(pt)
			}
			a.Ty = pt
			n2.vars[sp.Params[i]] = a
		}
		x, perr := parser.ParseExpr(rewriteImplies(sp.Body))
		if perr != nil {
			e.fail("macro %s: %v", name, perr)
		}
		r := n2.expr(x)
		return n2.coerce(r, e.typeFromString(sp.RType))
	}
	if sp, ok := vc.ctx.cf.Specs[name]; ok {
		vc.declareSpec(sp)
		if len(n.Args) != len(sp.Params) {
			e.fail("spec %s: wrong number of arguments", name)
		}
		var as []string
		for i := range n.Args {
			pt := e.typeFromString(sp.PTypes[i])
			a := e.coerce(arg(i), pt)
			if a.T == "nil" {
				a.T = vc.zero(pt)
			}
			as = append(as, a.T)
		}
		rt := e.typeFromString(sp.RType)
		if len(as) == 0 {
			return TV{T: "|spec." + name + "|", Ty: rt}
		}
		return TV{T: fmt.Sprintf("(|spec.%s| %s)", name, strings.Join(as, " ")), Ty: rt}
	}
	// uninterpreted function declared with "spec f(..) T = ?" handled in declareSpec.
	// type conversion?
	if t := e.resolveType(n.Fun); t != nil && len(n.Args) == 1 {
		v := arg(0)
		if v.Ty == nil {
			return e.coerce(v, t)
		}
		return TV{T: vc.convert(v.T, v.Ty, t), Ty: t}
	}
	e.fail("unknown function %s", exprString(n.Fun))
	return TV{}
}

func exprString(x ast.Expr) string {
	switch n := x.(type) {
	case *ast.Ident:
		return n.Name
	case *ast.SelectorExpr:
		return exprString(n.X) + "." + n.Sel.Name
	}
	return fmt.Sprintf("%T", x)
}

// declareSpec emits the define-fun (or declare-fun for body "?") of a spec function.
func (vc *VC) declareSpec(sp *SpecFn) {
	key := "spec " + sp.Name
	if vc.declSet[key] {
		return
	}
	vc.declSet[key] = true
	env := &SpecEnv{vc: vc, vars: map[string]TV{}, heap: nil, old: nil}
	var ps []string
	for i, p := range sp.Params {
		t := env.typeFromString(sp.PTypes[i])
		n := "|" + sp.Name + "." + p + "|"
		env.vars[p] = TV{T: n, Ty: t}
		ps = append(ps, fmt.Sprintf("(%s %s)", n, vc.sortOf(t)))
	}
	rt := env.typeFromString(sp.RType)
	if strings.TrimSpace(sp.Body) == "?" {
		var ss []string
		for i := range sp.Params {
			ss = append(ss, vc.sortOf(env.typeFromString(sp.PTypes[i])))
		}
		vc.decls = append(vc.decls, fmt.Sprintf("(declare-fun |spec.%s| (%s) %s)", sp.Name, strings.Join(ss, " "), vc.sortOf(rt)))
		return
	}
	body, err := env.Any(sp.Body)
	if err != nil {
		panic(fmt.Sprintf("spec %s: %v", sp.Name, err))
	}
	body = env.coerce(body, rt)
	vc.decls = append(vc.decls, fmt.Sprintf("(define-fun |spec.%s| (%s) %s %s)", sp.Name, strings.Join(ps, " "), vc.sortOf(rt), body.T))
}
