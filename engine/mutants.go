package main

// mutants.go: must-fail self-test corpus.  Every patch under
// /verif/mutants/<prop>/*.patch (and /verif/seeded/*/patch.diff whose meta.json
// names the property) is applied to a scratch copy of /repo outside /repo and
// /verif; the quick check must then report the expected obligation.  Patches
// marked "# expect: none" are harmless edits and must stay green.

import (
	"bytes"
	"encoding/json"
	"fmt"
	"os"
	"os/exec"
	"path/filepath"
	"sort"
	"strings"
)

type MutantResult struct {
	Patch    string `json:"patch"`
	Expect   string `json:"expect"`
	Outcome  string `json:"outcome"` // killed | survived | false-alarm | quiet | error
	Reported string `json:"reported,omitempty"`
}

func mutantPatches(verif, prop string) (files []string, expect map[string]string) {
	expect = map[string]string{}
	ms, _ := filepath.Glob(filepath.Join(verif, "mutants", prop, "*.patch"))
	for _, m := range ms {
		b, _ := os.ReadFile(m)
		e := ""
		for _, l := range strings.Split(string(b), "\n") {
			if strings.HasPrefix(l, "# expect:") {
				e = strings.TrimSpace(strings.TrimPrefix(l, "# expect:"))
			}
		}
		files = append(files, m)
		expect[m] = e
	}
	ss, _ := filepath.Glob(filepath.Join(verif, "seeded", "*", "meta.json"))
	for _, s := range ss {
		var meta struct {
			Property string `json:"property"`
			Expect   string `json:"expect_obligation"`
		}
		b, _ := os.ReadFile(s)
		if json.Unmarshal(b, &meta) != nil || meta.Property != prop {
			continue
		}
		p := filepath.Join(filepath.Dir(s), "patch.diff")
		if _, err := os.Stat(p); err == nil {
			files = append(files, p)
			expect[p] = meta.Expect
		}
	}
	sort.Strings(files)
	return
}

func runMutants(o checkOpts) []MutantResult {
	files, expect := mutantPatches(o.verif, o.prop)
	var out []MutantResult
	self, _ := os.Executable()
	for _, f := range files {
		r := MutantResult{Patch: strings.TrimPrefix(f, o.verif+"/"), Expect: expect[f]}
		tmp, err := os.MkdirTemp("", "zvc-mut-")
		if err != nil {
			r.Outcome = "error"
			out = append(out, r)
			continue
		}
		func() {
			defer os.RemoveAll(tmp)
			repo := filepath.Join(tmp, "repo")
			os.MkdirAll(repo, 0o755)
			for _, n := range []string{"go.mod", "go.sum", "zygo", "cmd"} {
				exec.Command("cp", "-a", filepath.Join(o.repo, n), repo).Run()
			}
			ap := exec.Command("git", "apply", "--whitespace=nowarn", f)
			ap.Dir = repo
			if b, err := ap.CombinedOutput(); err != nil {
				r.Outcome = "error"
				r.Reported = "patch does not apply: " + truncate(string(b), 300)
				return
			}
			vd := filepath.Join(tmp, "verif")
			os.MkdirAll(vd, 0o755)
			for _, n := range []string{"known_findings.json", "obligations.lock"} {
				exec.Command("cp", filepath.Join(o.verif, n), vd).Run()
			}
			cargs := []string{"check", "-prop", o.prop, "-tier", "quick", "-repo", repo, "-verif", vd}
			if os.Getenv("ZVC_MUTANT_FAST") != "" && r.Expect != "" && r.Expect != "none" && strings.Contains(r.Expect, "#") {
				// development aid for the long C01 corpus: verify only the function the expected
				// obligation lives in (the scans always run). A mutant that is not killed this way
				// must be re-run in full before it counts as survived.
				fn := strings.SplitN(r.Expect, "#", 2)[0]
				if strings.Contains(fn, "[") || strings.HasPrefix(fn, "writers.") || strings.HasPrefix(fn, "stable.") || strings.HasPrefix(fn, "reset.") {
					fn = "__scans_only__"
				}
				cargs = append(cargs, "-only", fn)
			}
			cmd := exec.Command(self, cargs...)
			var buf bytes.Buffer
			cmd.Stdout = &buf
			cmd.Stderr = &buf
			err := cmd.Run()
			var viols []string
			for _, l := range strings.Split(buf.String(), "\n") {
				if strings.HasPrefix(l, "VIOLATION") {
					viols = append(viols, l)
				}
			}
			r.Reported = truncate(strings.Join(viols, " ; "), 600)
			harmless := r.Expect == "none"
			switch {
			case harmless && err == nil:
				r.Outcome = "quiet"
			case harmless:
				r.Outcome = "false-alarm"
			case err == nil:
				r.Outcome = "survived"
			case r.Expect == "" || strings.Contains(r.Reported, r.Expect):
				r.Outcome = "killed"
			default:
				r.Outcome = "killed-other-obligation"
			}
		}()
		fmt.Printf("mutant %-50s expect=%-40s %s\n", r.Patch, r.Expect, r.Outcome)
		out = append(out, r)
	}
	return out
}

func cmdMutants(args []string) int {
	o := checkOpts{repo: "/repo", verif: "/verif"}
	// a frozen copy of the repository / of lock + known findings can be used, so that a long
	// corpus run is not disturbed by work going on in /repo
	if r := os.Getenv("ZVC_REPO"); r != "" {
		o.repo = r
	}
	if v := os.Getenv("ZVC_VERIF"); v != "" {
		o.verif = v
	}
	if len(args) < 1 {
		fmt.Println("usage: zvc mutants <PROP>")
		return 2
	}
	o.prop = args[0]
	rs := runMutants(o)
	bad := 0
	for _, r := range rs {
		if r.Outcome == "survived" || r.Outcome == "false-alarm" || r.Outcome == "error" {
			bad++
		}
	}
	fmt.Printf("%d mutants, %d not as expected\n", len(rs), bad)
	if bad > 0 {
		return 1
	}
	return 0
}
