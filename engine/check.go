package main

// check.go: the per-property check: generate obligations from /repo's current
// tree, discharge them, compare with obligations.lock and known_findings.json,
// replay counterexamples on the real code, write evidence, report.

import (
	"encoding/json"
	"flag"
	"fmt"
	"go/types"
	"os"
	"path/filepath"
	"regexp"
	"sort"
	"strings"
	"time"
)

type KnownFinding struct {
	Property   string `json:"property"`
	Obligation string `json:"obligation"`
	Input      string `json:"input"`            // human description of the failing input class
	Except     string `json:"except,omitempty"` // contract expression describing that class (over parameters / old state)
	Status     string `json:"status"`           // open | fixed
	Commit     string `json:"commit,omitempty"`
	Note       string `json:"note,omitempty"`
}

type LockEntry struct {
	Claimed   []string          `json:"claimed"`
	Unclaimed map[string]string `json:"unclaimed,omitempty"` // sweep obligations not claimed: name -> why
}

type LockFile map[string]*LockEntry

type checkOpts struct {
	prop, tier, repo, verif, contracts string
	seed                               int
	updateLock                         bool
	only                               string
	keep                               bool
	verbose                            bool
}

func cmdCheck(args []string) int {
	fs := flag.NewFlagSet("check", flag.ExitOnError)
	var o checkOpts
	fs.StringVar(&o.prop, "prop", "", "property id")
	fs.StringVar(&o.tier, "tier", "quick", "quick|thorough")
	fs.StringVar(&o.repo, "repo", "/repo", "repository")
	fs.StringVar(&o.verif, "verif", "/verif", "verif dir")
	fs.StringVar(&o.contracts, "contracts", "", "contract file (default <repo>/zygo/zz_contracts_verif.go)")
	fs.BoolVar(&o.updateLock, "update-lock", false, "rewrite this property's entry in obligations.lock (development only)")
	fs.StringVar(&o.only, "only", "", "only functions matching this substring (development)")
	fs.BoolVar(&o.keep, "keep", false, "keep SMT scripts")
	fs.BoolVar(&o.verbose, "v", false, "print every obligation")
	fs.Parse(args)
	if o.contracts == "" {
		o.contracts = filepath.Join(o.repo, "zygo", "zz_contracts_verif.go")
	}
	if s := os.Getenv("VERIF_SEED"); s != "" {
		fmt.Sscan(s, &o.seed)
	}
	if t := os.Getenv("VERIF_TIER"); t == "quick" || t == "thorough" {
		if len(args) == 0 {
			o.tier = t
		}
	}
	return runCheck(o)
}

var occRe = regexp.MustCompile(`#\d+$`)
var siteLevelRe = regexp.MustCompile(`#(pre@call|panic\.|assert|effect\.guard|guard\.recover|typeinv\.preserve|canary)`)

type failure struct {
	o      *Obligation
	reason string
	known  *KnownFinding
}

func runCheck(o checkOpts) int {
	start := time.Now()
	prop := o.prop
	evPath := filepath.Join(o.verif, "evidence", prop+".json")
	os.MkdirAll(filepath.Dir(evPath), 0o755)
	if os.Getenv("ZVC_NOEVIDENCE") == "" {
		os.Remove(evPath)
	}
	fatal := func(msg string) int {
		// machinery failure: fail closed, with a VIOLATION line so nothing is silently skipped
		rp := writeReplay(o, prop, "machinery", map[string]interface{}{"error": msg})
		fmt.Printf("zvc: %s\n", msg)
		fmt.Printf("VIOLATION property=%s replay=%s obligation=machinery-error no-failing-input-found\n", prop, rp)
		return 1
	}
	c, err := loadCtx(o.repo, o.contracts)
	if err != nil {
		return fatal("cannot load repository / contracts: " + err.Error())
	}
	var known []KnownFinding
	if b, err := os.ReadFile(filepath.Join(o.verif, "known_findings.json")); err == nil {
		if err := json.Unmarshal(b, &known); err != nil {
			return fatal("known_findings.json: " + err.Error())
		}
	}
	lock := LockFile{}
	if b, err := os.ReadFile(filepath.Join(o.verif, "obligations.lock")); err == nil {
		json.Unmarshal(b, &lock)
	}

	// functions under contract for this property
	var fnames []string
	for _, name := range c.cf.Order {
		fc := c.cf.Funcs[name]
		tagged := false
		for _, cl := range fc.Clauses {
			if hasProp(cl, prop) && len(cl.Props) > 0 && !cl.Assumed {
				tagged = true
			}
		}
		if tagged && (o.only == "" || strings.Contains(name, o.only)) {
			fnames = append(fnames, name)
		}
	}
	var obls []*Obligation
	var vcs []*VC
	var fails []failure
	trusted := []string{}
	// zero-annotation panic sweep: functions named by sweep directives are
	// verified as "nopanic" without needing a contract of their own
	sweepSet := map[string]bool{}
	for _, d := range c.cf.Sweeps {
		if d.Prop != prop {
			continue
		}
		if d.Reach {
			continue
		}
		for _, f := range d.Funcs {
			sweepSet[f] = true
		}
		if d.File != "" {
			for name, fn := range c.funcs {
				if fn.Pos().IsValid() && shortFile(c.fset.Position(fn.Pos()).Filename) == d.File && fn.Blocks != nil {
					sweepSet[name] = true
				}
			}
		}
	}
	for _, d := range c.cf.Sweeps {
		if d.Prop != prop || !d.Reach {
			continue
		}
		except := map[string]bool{}
		for _, f := range d.Funcs {
			except[f] = true
		}
		for _, name := range c.reachByCalls(sweepSet) {
			if !except[name] {
				sweepSet[name] = true
			}
		}
	}
	// error-propagation obligations for every function of a file
	for _, pf := range c.cf.PropFiles {
		if pf.Prop != prop {
			continue
		}
		var ns []string
		for name, fn := range c.funcs {
			if fn.Pos().IsValid() && shortFile(c.fset.Position(fn.Pos()).Filename) == pf.File && fn.Blocks != nil {
				res := fn.Signature.Results()
				if res.Len() == 0 || types.TypeString(res.At(res.Len()-1).Type(), nil) != "error" {
					continue
				}
				ns = append(ns, name)
			}
		}
		sort.Strings(ns)
		for _, name := range ns {
			fc := c.cf.Funcs[name]
			if fc == nil {
				fc = &FuncContract{Name: name}
				c.cf.Funcs[name] = fc
				c.cf.Order = append(c.cf.Order, name)
			}
			if !fc.has("propagates") {
				fc.Clauses = append(fc.Clauses, &Clause{Kind: "propagates", Props: []string{prop}, Expr: pf.Re, Loop: -1})
			}
			found := false
			for _, n := range fnames {
				if n == name {
					found = true
				}
			}
			if !found && (o.only == "" || strings.Contains(name, o.only)) {
				fnames = append(fnames, name)
			}
		}
	}
	inList := map[string]bool{}
	for _, n := range fnames {
		inList[n] = true
	}
	var sweepNames []string
	for n := range sweepSet {
		if !inList[n] && (o.only == "" || strings.Contains(n, o.only)) {
			sweepNames = append(sweepNames, n)
		}
	}
	sort.Strings(sweepNames)
	type job struct {
		name  string
		sweep bool
	}
	var jobs []job
	for _, n := range fnames {
		jobs = append(jobs, job{n, sweepSet[n]})
	}
	for _, n := range sweepNames {
		jobs = append(jobs, job{n, true})
	}
	fnames = append(fnames, sweepNames...)
	for _, jb := range jobs {
		name := jb.name
		fc := c.cf.Funcs[name]
		if fc == nil {
			fc = &FuncContract{Name: name}
		}
		if strings.HasPrefix(name, "dyn ") || strings.Contains(name, ".") && c.funcs[name] == nil && !strings.HasPrefix(name, "(") {
			// interface-method / dynamic contracts are assumptions, not verified here
			trusted = append(trusted, name)
			continue
		}
		if fc.has("trusted") {
			trusted = append(trusted, name)
			continue
		}
		fn := c.funcs[name]
		if fn == nil {
			ob := &Obligation{Name: name + "#anchor", Kind: "anchor", Fn: name, Status: "missing", Backend: "ssa-scan"}
			obls = append(obls, ob)
			fails = append(fails, failure{o: ob, reason: "anchor-lost: function under contract not found in /repo"})
			continue
		}
		vc, err := c.verifyFunc(fn, fc, prop, jb.sweep)
		if err != nil {
			ob := &Obligation{Name: name + "#encode", Kind: "encode", Fn: name, Status: "error", Backend: "ssa-scan"}
			obls = append(obls, ob)
			fails = append(fails, failure{o: ob, reason: "cannot encode: " + err.Error()})
			continue
		}
		vcs = append(vcs, vc)
		onlyProp := true
		for _, cl := range fc.Clauses {
			if hasProp(cl, prop) && len(cl.Props) > 0 && cl.Kind != "propagates" {
				onlyProp = false
			}
		}
		if onlyProp && !jb.sweep {
			// verified for error propagation only: preconditions of its callees are not part of that claim
			for _, ob := range vc.obls {
				if ob.Kind == "pre@call" {
					ob.Sweep = true
				}
			}
		}
		if jb.sweep && !fc.has("nopanic") {
			for _, ob := range vc.obls {
				if strings.HasPrefix(ob.Kind, "panic.") || ob.Kind == "pre@call" {
					ob.Sweep = true
				}
			}
		}
		obls = append(obls, vc.obls...)
	}
	// scan obligations (frame.write / effect.call / guard.recover / lang.incl ...)
	scanObls, scanInfo := c.scanObligations(prop)
	obls = append(obls, scanObls...)

	for _, e := range c.contractErrors {
		ob := &Obligation{Name: "contract#" + sanitizeFile(e), Kind: "contract", Status: "error", Backend: "ssa-scan", Model: e}
		obls = append(obls, ob)
		fails = append(fails, failure{o: ob, reason: e})
	}

	retried := 0
	tmp, _ := os.MkdirTemp("", "zvc-"+prop+"-")
	if !o.keep {
		defer os.RemoveAll(tmp)
	} else {
		fmt.Println("scripts kept in", tmp)
	}
	budget, all := 10, false
	if o.tier == "thorough" {
		budget, all = 60, true
	}
	// sweep obligations recorded as not claimed are not sent to the solvers in the
	// quick tier (they would only burn their time-outs); thorough retries them.
	var toRun []*Obligation
	for _, ob := range obls {
		if le := lock[prop]; le != nil && !o.updateLock && o.tier == "quick" {
			if _, un := le.Unclaimed[ob.Name]; un {
				ob.Status = "not-run"
				continue
			}
		}
		toRun = append(toRun, ob)
	}
	dischargeAll(toRun, tmp, budget, all, 12)
	// retry ladder: an obligation that timed out while 12 solver races shared the
	// machine is retried with few competitors and three times the budget, so that
	// load on the host cannot turn a discharged obligation into an alarm
	var again []*Obligation
	for _, ob := range toRun {
		if !ob.Canary && ob.Backend == "" && (ob.Status == "timeout" || ob.Status == "unknown") {
			again = append(again, ob)
		}
	}
	if len(again) > 0 && len(again) <= 40 {
		dischargeAll(again, tmp, budget*3, true, 5)
		retried = len(again)
	}

	if o.verbose {
		for _, vc := range vcs {
			if len(vc.abstracted) > 0 || len(vc.unsupported) > 0 || len(vc.warnings) > 0 {
				fmt.Printf("  [%s] abstracted=%v unsupported=%v warnings=%v\n", vc.fnName(), vc.abstracted, vc.unsupported, vc.warnings)
			}
		}
		for _, ob := range obls {
			fmt.Printf("  %-8s %-10s %6.2fs %s\n", ob.Status, backendOf(ob), ob.TimeS, ob.Name)
		}
	}
	// classify
	byName := map[string]*Obligation{}
	nCanary, nDischarged, nClaimed, nCanaryInconclusive := 0, 0, 0, 0
	byBackend := map[string]int{}
	byKind := map[string]int{}
	solverTime := 0.0
	var kfLines []string
	var extraObls []*Obligation
	_ = retried
	var unclaimedSeen []string
	newUnclaimed := map[string]string{}
	for _, ob := range obls {
		byName[ob.Name] = ob
		solverTime += ob.TimeS
		if ob.Canary {
			nCanary++
			switch ob.Status {
			case "sat":
			case "unsat":
				if ob.Diag {
					fmt.Printf("PATH-CANARY refuted (diagnostic): %s at %s\n", ob.Name, ob.Pos)
					break
				}
				fails = append(fails, failure{o: ob, reason: "vacuity canary refuted: the assumptions at this point (preconditions / loop invariant) are contradictory or the point is unreachable"})
			default:
				nCanaryInconclusive++
			}
			continue
		}
		if ob.Kind == "anchor" || ob.Kind == "encode" || ob.Kind == "contract" {
			continue
		}
		if ob.Backend == "ssa-scan" || ob.Backend == "lang" {
			nClaimed++
			byKind[ob.Kind]++
			if ob.Status == "ok" {
				nDischarged++
				byBackend[ob.Backend]++
				continue
			}
			kf := findKnown(known, prop, ob.Name)
			if kf != nil {
				nClaimed--
				byKind[ob.Kind]--
				kfLines = append(kfLines, fmt.Sprintf("KNOWN-FINDING: property=%s %s: %s", prop, ob.Name, kf.Input))
				continue
			}
			fails = append(fails, failure{o: ob, reason: ob.Model})
			continue
		}
		if le := lock[prop]; le != nil && !o.updateLock {
			if why, un := le.Unclaimed[ob.Name]; un {
				unclaimedSeen = append(unclaimedSeen, ob.Name+" ("+why+"; now "+ob.Status+")")
				continue
			}
		}
		if o.updateLock && ob.Sweep && ob.Status != "unsat" {
			newUnclaimed[ob.Name] = "not discharged without further contracts when locked (" + ob.Status + ")"
			unclaimedSeen = append(unclaimedSeen, ob.Name+" ("+newUnclaimed[ob.Name]+")")
			continue
		}
		nClaimed++
		byKind[ob.Kind]++
		if ob.Status == "unsat" {
			nDischarged++
			byBackend[ob.Solver]++
			continue
		}
		// failing obligation: known finding?
		kf := findKnown(known, prop, ob.Name)
		if kf != nil && kf.Except != "" {
			// the obligation must hold outside the recorded failing input class
			v := *ob
			v.Name = ob.Name + "~outside-known-finding"
			cond, err := exceptTerm(ob, kf.Except)
			if err != nil {
				fails = append(fails, failure{o: ob, reason: "known-finding except clause does not translate: " + err.Error()})
				continue
			}
			v.Goal = fmt.Sprintf("(=> (not %s) %s)", cond, ob.Goal)
			v.Status, v.Model = "", ""
			discharge(&v, tmp, budget, all)
			solverTime += v.TimeS
			extraObls = append(extraObls, &v)
			if v.Status == "unsat" {
				nDischarged++
				byBackend[v.Solver]++
				kfLines = append(kfLines, fmt.Sprintf("KNOWN-FINDING: property=%s %s: %s", prop, ob.Name, kf.Input))
				continue
			}
			v.Kind = ob.Kind
			fails = append(fails, failure{o: &v, reason: "obligation fails outside the recorded known-finding input class"})
			continue
		}
		if kf != nil {
			nClaimed--
			byKind[ob.Kind]--
			kfLines = append(kfLines, fmt.Sprintf("KNOWN-FINDING: property=%s %s: %s", prop, ob.Name, kf.Input))
			continue
		}
		fails = append(fails, failure{o: ob, reason: "obligation not discharged (" + ob.Status + ")"})
	}
	// lock
	var genNames []string
	for _, ob := range obls {
		if !ob.Canary && ob.Kind != "encode" && ob.Kind != "contract" && ob.Kind != "anchor" {
			genNames = append(genNames, ob.Name)
		}
	}
	sort.Strings(genNames)
	if o.updateLock {
		var claimed []string
		for _, n := range genNames {
			if _, un := newUnclaimed[n]; !un {
				claimed = append(claimed, n)
			}
		}
		lock[prop] = &LockEntry{Claimed: claimed, Unclaimed: newUnclaimed}
		b, _ := json.MarshalIndent(lock, "", " ")
		os.WriteFile(filepath.Join(o.verif, "obligations.lock"), append(b, '\n'), 0o644)
	}
	if lock[prop] == nil {
		lock[prop] = &LockEntry{}
	}
	if o.only == "" {
		// anchor-lost: a locked contract obligation (postcondition, frame, invariant, ...)
		// that is no longer generated.  Site-level obligations (one per call site or
		// per panicking instruction) legitimately come and go with harmless edits, and
		// occurrence counters (#k) are ignored, so restructuring code is not an alarm.
		baseSeen := map[string]bool{}
		for n := range byName {
			baseSeen[occRe.ReplaceAllString(n, "")] = true
		}
		for _, n := range lock[prop].Claimed {
			if siteLevelRe.MatchString(n) {
				continue
			}
			if !baseSeen[occRe.ReplaceAllString(n, "")] {
				ob := &Obligation{Name: n, Kind: "anchor", Status: "missing", Backend: "ssa-scan"}
				fails = append(fails, failure{o: ob, reason: "anchor-lost: locked obligation is no longer generated from /repo"})
			}
		}
		if len(lock[prop].Claimed) == 0 && !o.updateLock {
			return fatal("no locked obligations for " + prop + " (obligations.lock missing or empty)")
		}
	}
	if nClaimed == 0 {
		return fatal("zero obligations generated for " + prop)
	}

	// report
	for _, l := range kfLines {
		fmt.Println(l)
	}
	violations := 0
	seen := map[string]bool{}
	for _, f := range fails {
		if seen[f.o.Name] {
			continue
		}
		seen[f.o.Name] = true
		violations++
		rep := map[string]interface{}{
			"property": prop, "obligation": f.o.Name, "kind": f.o.Kind, "function": f.o.Fn, "position": f.o.Pos,
			"status": f.o.Status, "solver": f.o.Solver, "reason": f.reason, "solver_output": truncate(f.o.Model, 20000),
		}
		suffix := " no-failing-input-found"
		if f.o.Status == "sat" && f.o.vc != nil && !f.o.Canary {
			rr := c.replay(f.o, tmp, o)
			rep["replay"] = rr
			if rr.Reproduced {
				suffix = ""
			}
		}
		if f.o.Script != "" {
			if b, err := os.ReadFile(f.o.Script); err == nil && len(b) < 400000 {
				rep["smt_script"] = string(b)
			}
		}
		rp := writeReplay(o, prop, f.o.Name, rep)
		fmt.Printf("FAILED %s: %s\n", f.o.Name, f.reason)
		fmt.Printf("VIOLATION property=%s replay=%s obligation=%s%s\n", prop, rp, f.o.Name, suffix)
	}

	// thorough tier: must-fail corpus (weakness of the machinery is reported, never a violation)
	var mutRes []MutantResult
	if o.tier == "thorough" && violations == 0 && o.only == "" {
		mutRes = runMutants(o)
	}
	// evidence
	var samples []map[string]interface{}
	for i, ob := range obls {
		if ob.Canary {
			continue
		}
		if len(samples) < 12 || i%17 == 0 && len(samples) < 25 {
			samples = append(samples, map[string]interface{}{"obligation": ob.Name, "kind": ob.Kind, "status": ob.Status, "backend": backendOf(ob), "time_s": round3(ob.TimeS), "at": ob.Pos})
		}
	}
	abstracted := map[string]int{}
	externals := map[string]int{}
	called := map[string]int{}
	var unsupported []string
	for _, vc := range vcs {
		for k, v := range vc.abstracted {
			abstracted[vc.fnName()+" -> "+k] += v
		}
		for k, v := range vc.externals {
			externals[k] += v
		}
		for k, v := range vc.calledContracts {
			called[k] += v
		}
		for _, u := range vc.unsupported {
			unsupported = append(unsupported, vc.fnName()+": "+u)
		}
	}
	sort.Strings(unsupported)
	var assumedClauses []string
	for name := range called {
		if fc := c.cf.Funcs[name]; fc != nil {
			for _, cl := range fc.Clauses {
				if cl.Assumed {
					assumedClauses = append(assumedClauses, fmt.Sprintf("%s: assume %s %s %s", name, cl.Kind, cl.Label, cl.Expr))
				}
			}
			if fc.has("trusted") {
				assumedClauses = append(assumedClauses, name+": whole contract trusted (not verified against the body)")
			}
		}
	}
	sort.Strings(assumedClauses)
	ev := map[string]interface{}{
		"property_id": prop, "tier": o.tier, "seed": o.seed, "level": "proof",
		"wall_s": round3(time.Since(start).Seconds()), "violations": violations,
		"coverage": map[string]interface{}{
			"obligations": nClaimed, "discharged": nDischarged,
			"checker_cmd":                    fmt.Sprintf("/verif/bin/zvc check -prop %s -tier %s", prop, o.tier),
			"trusted_base":                   trustedBase(trusted),
			"samples":                        samples,
			"functions_under_contract":       fnames,
			"trusted_contracts_not_verified": trusted,
			"obligations_by_kind":            byKind, "discharged_by_backend": byBackend,
			"solver_time_s": round3(solverTime), "obligations_retried_after_timeout": retried, "vacuity_canaries_checked": nCanary, "vacuity_canaries_inconclusive": nCanaryInconclusive,
			"abstracted_calls_havoc_everything":  abstracted,
			"assumed_dependency_calls":           externals,
			"callee_contracts_used":              called,
			"assumed_contract_clauses_used":      assumedClauses,
			"constructs_outside_modelled_subset": unsupported,
			"known_findings_reported":            kfLines,
			"sweep_obligations_not_claimed":      unclaimedSeen,
			"scan":                               scanInfo,
			"mutants":                            mutRes,
			"integers":                           "64/32/16/8-bit two's-complement bit-vectors (machine arithmetic, wrapping); float64 = SMT FloatingPoint(11,53) RNE; int->float conversion abstracted as an uninterpreted finite-valued function",
			"explanation":                        "Every obligation is generated from the go/ssa form of /repo's current working tree (build tag verif) and the contract comments in zygo/zz_contracts_verif.go; callers are checked against callee contracts, never callee bodies.",
		},
		"assumptions": standingAssumptions(),
	}
	b, _ := json.MarshalIndent(ev, "", " ")
	if os.Getenv("ZVC_NOEVIDENCE") == "" {
		// (set while a seeded change is applied to /repo: the committed evidence must describe the unchanged tree)
		os.WriteFile(evPath, append(b, '\n'), 0o644)
	}
	fmt.Printf("zvc: property %s tier %s: %d obligations, %d discharged, %d canaries, %d known findings, %d violations, %.1fs\n",
		prop, o.tier, nClaimed, nDischarged, nCanary, len(kfLines), violations, time.Since(start).Seconds())
	if violations > 0 {
		return 1
	}
	return 0
}

func backendOf(o *Obligation) string {
	if o.Backend != "" {
		return o.Backend
	}
	return o.Solver
}

func round3(f float64) float64 { return float64(int(f*1000)) / 1000 }

func truncate(s string, n int) string {
	if len(s) > n {
		return s[:n] + "...[truncated]"
	}
	return s
}

func findKnown(known []KnownFinding, prop, name string) *KnownFinding {
	for i := range known {
		k := &known[i]
		if k.Property == prop && k.Obligation == name && k.Status == "open" {
			return k
		}
	}
	return nil
}

func writeReplay(o checkOpts, prop, name string, v map[string]interface{}) string {
	dir := filepath.Join(o.verif, "replays", prop)
	os.MkdirAll(dir, 0o755)
	p := filepath.Join(dir, sanitizeFile(name)+".json")
	b, _ := json.MarshalIndent(v, "", " ")
	os.WriteFile(p, append(b, '\n'), 0o644)
	return p
}

func trustedBase(trusted []string) []string {
	tb := []string{
		"go/packages + go/ssa (x/tools v0.29.0): translation of Go source to SSA",
		"zvc: encoding of SSA instructions, heap model (Burstall-Bornat field arrays), loop cutting, contract translation",
		"SMT solvers z3 4.8.12, z3 5.1.0, cvc5 1.0.3 (unsat answers)",
	}
	for _, t := range trusted {
		tb = append(tb, "trusted contract (assumed, not verified against a body): "+t)
	}
	return tb
}

func standingAssumptions() []string {
	return []string{
		"A-LEN: slice/string lengths and capacities are <= 2^40",
		"A-ALLOC: allocation never fails; the Go stack never overflows",
		"A-NONNIL: nil-pointer dereference panics are obligations only in functions swept under a nilsweep directive, and there only for call results and map lookups (other pointers dereferenced are assumed non-nil)",
		"A-TYPEDNIL: an interface value whose dynamic type is a pointer type holds a non-nil pointer (no typed-nil Sexp values)",
		"A-EXT: calls into the standard library / third-party packages do not write interpreter state except through pointer or slice arguments passed directly, and do not call back into zygo unless handed a func value",
		"T-LOG: debug printers P/Q/VPrintf/vv are pure",
		"termination is not proved (partial correctness)",
		"goroutines, channels, select, defer/recover bodies and reflection are outside the modelled subset; functions using them have those steps abstracted (whole heap havocked)",
		"contracts of callees are assumed at call sites (modular verification); a callee's contract is verified under the property that tags it",
	}
}

func exceptTerm(ob *Obligation, expr string) (string, error) {
	vc := ob.vc
	if vc == nil || vc.entryEnv == nil {
		return "", fmt.Errorf("no entry environment")
	}
	// evaluate over parameters and the entry heap; emitted definitions must not
	// extend the body prefix, so translate with a scratch body and inline.
	saved := vc.body
	t, err := vc.entryEnv.Bool(expr)
	extra := vc.body[len(saved):]
	vc.body = saved
	if err != nil {
		return "", err
	}
	if len(extra) > 0 {
		return "", fmt.Errorf("except clause needs auxiliary definitions (simplify it)")
	}
	return t, nil
}
