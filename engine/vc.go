package main

// vc.go: SMT sorts, heap model and the per-function verification-condition
// context.  Everything here is mechanical: terms are SMT-LIB2 text.

import (
	"fmt"
	"go/types"
	"sort"
	"strings"

	"golang.org/x/tools/go/ssa"
)

const (
	sBool  = "Bool"
	sRef   = "Int"
	sStr   = "Str"
	sIface = "Iface"
	sSlice = "Slice"
	sBV64  = "(_ BitVec 64)"
	sF64   = "(_ FloatingPoint 11 53)"
	sF32   = "(_ FloatingPoint 8 24)"
)

// Obligation is one proof obligation: the script prefix body[:Prefix] plus
// (assert (not Goal)) must be unsat.
type Obligation struct {
	Name    string
	Kind    string
	Fn      string
	Props   []string
	Goal    string // Bool term that must hold
	Prefix  int    // number of body lines that precede it
	Snippet string
	Pos     string
	Canary  bool // must-fail reachability canary (vacuity guard)
	Backend string
	// results
	Status  string // unsat, sat, unknown, timeout, error
	Solver  string
	TimeS   float64
	Model   string
	Script  string
	vc      *VC
	ModelOf []string // terms whose model values we want
}

// VC is the encoding context of one function.
type VC struct {
	ctx      *Ctx
	fn       *ssa.Function
	fc       *FuncContract
	decls    []string
	declSet  map[string]bool
	body     []string
	obls     []*Obligation
	nfresh   int
	heapID   int
	arrSort  map[string]string // heap array name -> SMT sort
	snipCnt  map[string]int
	warnings []string
	abstracted map[string]int
	unsupported []string
	strlits  map[string]string
	modelTerms []string
	onWrite func(string)
	calledContracts map[string]int
	externals map[string]int
	fpUF bool
	entryEnv *SpecEnv
	entryHeap *Heap
}

func (vc *VC) warn(f string, a ...interface{}) {
	vc.warnings = append(vc.warnings, fmt.Sprintf(f, a...))
}

func (vc *VC) decl(key, line string) {
	if vc.declSet[key] {
		return
	}
	vc.declSet[key] = true
	vc.decls = append(vc.decls, line)
}

func (vc *VC) emit(line string) { vc.body = append(vc.body, line) }

func (vc *VC) assume(t string) {
	if t == "true" {
		return
	}
	vc.emit("(assert " + t + ")")
}

func (vc *VC) fresh(prefix, sort string) string {
	vc.nfresh++
	n := fmt.Sprintf("|%s!%d|", prefix, vc.nfresh)
	vc.decl(n, fmt.Sprintf("(declare-const %s %s)", n, sort))
	return n
}

// define names a term so later uses stay small.
func (vc *VC) define(prefix, sort, term string) string {
	if len(term) < 24 && !strings.Contains(term, " ") {
		return term
	}
	vc.nfresh++
	n := fmt.Sprintf("|%s!%d|", prefix, vc.nfresh)
	vc.emit(fmt.Sprintf("(define-fun %s () %s %s)", n, sort, term))
	return n
}

func sanitize(s string) string {
	r := strings.NewReplacer("(", "", ")", "", " ", "_", "|", "", "*", "P", "[", "L", "]", "R", "{", "", "}", "", ",", "_", ";", "_", "/", ".", "\"", "", "\\", "")
	return r.Replace(s)
}

// ---- sorts -----------------------------------------------------------

func (vc *VC) structName(t types.Type, st *types.Struct) string {
	if n, ok := t.(*types.Named); ok {
		o := n.Obj()
		if o.Pkg() != nil && o.Pkg() != vc.ctx.tpkg {
			return o.Pkg().Name() + "." + o.Name()
		}
		return o.Name()
	}
	return "anon" + sanitize(st.String())
}

func bvSort(bits int) string { return fmt.Sprintf("(_ BitVec %d)", bits) }

func basicBits(b *types.Basic) (bits int, signed bool, ok bool) {
	switch b.Kind() {
	case types.Int, types.Int64, types.UntypedInt:
		return 64, true, true
	case types.Uint, types.Uint64, types.Uintptr:
		return 64, false, true
	case types.Int32, types.UntypedRune:
		return 32, true, true
	case types.Uint32:
		return 32, false, true
	case types.Int16:
		return 16, true, true
	case types.Uint16:
		return 16, false, true
	case types.Int8:
		return 8, true, true
	case types.Uint8:
		return 8, false, true
	}
	return 0, false, false
}

func intInfo(t types.Type) (bits int, signed bool, ok bool) {
	if b, isb := t.Underlying().(*types.Basic); isb {
		return basicBits(b)
	}
	return 0, false, false
}

func isFloat(t types.Type) bool {
	if b, ok := t.Underlying().(*types.Basic); ok {
		return b.Info()&types.IsFloat != 0
	}
	return false
}

func isString(t types.Type) bool {
	if b, ok := t.Underlying().(*types.Basic); ok {
		return b.Info()&types.IsString != 0
	}
	return false
}

func isIface(t types.Type) bool {
	_, ok := t.Underlying().(*types.Interface)
	return ok
}

// sortOf maps a Go type to an SMT sort (declaring datatypes on demand).
func (vc *VC) sortOf(t types.Type) string {
	switch u := t.Underlying().(type) {
	case *types.Basic:
		if bits, _, ok := basicBits(u); ok {
			return bvSort(bits)
		}
		switch {
		case u.Info()&types.IsBoolean != 0:
			return sBool
		case u.Kind() == types.Float32:
			return sF32
		case u.Info()&types.IsFloat != 0:
			return sF64
		case u.Info()&types.IsString != 0:
			return sStr
		case u.Info()&types.IsComplex != 0:
			vc.decl("sort Cplx", "(declare-sort Cplx 0)")
			return "Cplx"
		case u.Kind() == types.UnsafePointer:
			return sRef
		case u.Kind() == types.UntypedNil:
			return sRef
		}
	case *types.Pointer, *types.Map, *types.Chan, *types.Signature:
		return sRef
	case *types.Interface:
		return sIface
	case *types.Slice:
		return sSlice
	case *types.Array:
		return "(Array (_ BitVec 64) " + vc.sortOf(u.Elem()) + ")"
	case *types.Struct:
		return vc.structSort(t, u)
	case *types.Tuple:
		return "TUPLE"
	}
	vc.warn("sortOf: unhandled type %s", t)
	vc.decl("sort Opaque", "(declare-sort Opaque 0)")
	return "Opaque"
}

func (vc *VC) structSort(t types.Type, st *types.Struct) string {
	name := "S." + vc.structName(t, st)
	q := "|" + name + "|"
	if vc.declSet["dt "+name] {
		return q
	}
	vc.declSet["dt "+name] = true
	var fs []string
	for i := 0; i < st.NumFields(); i++ {
		f := st.Field(i)
		fs = append(fs, fmt.Sprintf("(|%s.%s| %s)", name, f.Name(), vc.sortOf(f.Type())))
	}
	if len(fs) == 0 {
		fs = append(fs, fmt.Sprintf("(|%s.$unit| Bool)", name))
	}
	vc.decls = append(vc.decls, fmt.Sprintf("(declare-datatypes ((%s 0)) (((|mk.%s| %s))))", q, name, strings.Join(fs, " ")))
	return q
}

func sortKey(s string) string { return sanitize(s) }

// zero value of a Go type as an SMT term.
func (vc *VC) zero(t types.Type) string {
	switch u := t.Underlying().(type) {
	case *types.Basic:
		if bits, _, ok := basicBits(u); ok {
			return bvLit(0, bits)
		}
		switch {
		case u.Info()&types.IsBoolean != 0:
			return "false"
		case u.Kind() == types.Float32:
			return "(_ +zero 8 24)"
		case u.Info()&types.IsFloat != 0:
			return "(_ +zero 11 53)"
		case u.Info()&types.IsString != 0:
			return vc.strLit("")
		case u.Info()&types.IsComplex != 0:
			vc.sortOf(t)
			vc.decl("cplx0", "(declare-const cplx0 Cplx)")
			return "cplx0"
		}
		return "0"
	case *types.Pointer, *types.Map, *types.Chan, *types.Signature:
		return "0"
	case *types.Interface:
		return "(mk_iface 0 0)"
	case *types.Slice:
		return "(mk_slice 0 (_ bv0 64) (_ bv0 64) (_ bv0 64))"
	case *types.Array:
		return fmt.Sprintf("((as const %s) %s)", vc.sortOf(t), vc.zero(u.Elem()))
	case *types.Struct:
		s := vc.structSort(t, u)
		name := strings.Trim(s, "|")
		if u.NumFields() == 0 {
			return "(|mk." + name + "| true)"
		}
		var parts []string
		for i := 0; i < u.NumFields(); i++ {
			parts = append(parts, vc.zero(u.Field(i).Type()))
		}
		return "(|mk." + name + "| " + strings.Join(parts, " ") + ")"
	}
	s := vc.sortOf(t)
	return vc.fresh("zero", s)
}

func bvLit(v uint64, bits int) string {
	if bits < 64 {
		v &= (uint64(1) << uint(bits)) - 1
	}
	return fmt.Sprintf("(_ bv%d %d)", v, bits)
}

func (vc *VC) strLit(s string) string {
	if n, ok := vc.strlits[s]; ok {
		return n
	}
	n := fmt.Sprintf("|str!%d|", len(vc.strlits))
	vc.strlits[s] = n
	vc.decl(n, fmt.Sprintf("(declare-const %s Str)", n))
	// distinctness + length facts are emitted in the prelude (see prelude()).
	return n
}

// prelude: fixed declarations shared by every VC.
func (vc *VC) preludeLines() []string {
	p := []string{
		"(declare-sort Str 0)",
		"(declare-datatypes ((Iface 0)) (((mk_iface (itag Int) (ipay Int)))))",
		"(declare-datatypes ((Slice 0)) (((mk_slice (sarr Int) (soff (_ BitVec 64)) (slen (_ BitVec 64)) (scap (_ BitVec 64))))))",
		"(define-fun iface_nil () Iface (mk_iface 0 0))",
		"(define-fun slice_nil () Slice (mk_slice 0 (_ bv0 64) (_ bv0 64) (_ bv0 64)))",
		"(declare-fun strlen (Str) (_ BitVec 64))",
		"(declare-fun str_at (Str (_ BitVec 64)) (_ BitVec 8))",
		"(declare-fun str_concat (Str Str) Str)",
		"(declare-fun str_sub (Str (_ BitVec 64) (_ BitVec 64)) Str)",
		"(declare-fun str_lt (Str Str) Bool)",
		"(define-fun iface_isnil ((x Iface)) Bool (= (itag x) 0))",
		"(define-fun iface_eq ((x Iface) (y Iface)) Bool (or (= x y) (and (= (itag x) 0) (= (itag y) 0))))",
	}
	return p
}

func (vc *VC) strFacts() []string {
	var out []string
	var names []string
	keys := make([]string, 0, len(vc.strlits))
	for k := range vc.strlits {
		keys = append(keys, k)
	}
	sort.Strings(keys)
	for _, k := range keys {
		n := vc.strlits[k]
		names = append(names, n)
		out = append(out, fmt.Sprintf("(assert (= (strlen %s) %s))", n, bvLit(uint64(len(k)), 64)))
		for i := 0; i < len(k) && i < 4; i++ {
			out = append(out, fmt.Sprintf("(assert (= (str_at %s %s) %s))", n, bvLit(uint64(i), 64), bvLit(uint64(k[i]), 8)))
		}
	}
	if len(names) > 1 {
		out = append(out, "(assert (distinct "+strings.Join(names, " ")+"))")
	}
	return out
}

// ---- heap -------------------------------------------------------------

// Heap is a (persistent) map from heap-array name to its current version.
// Arrays never mentioned resolve lazily through parents, so "havoc
// everything" is O(1).
type Heap struct {
	vc      *VC
	id      int
	vers    map[string]string
	parents []*Heap
	pguards []string
	alloc   string // allocation counter term (Int)
}

func (vc *VC) newHeap() *Heap {
	vc.heapID++
	return &Heap{vc: vc, id: vc.heapID, vers: map[string]string{}}
}

func (h *Heap) clone() *Heap {
	n := &Heap{vc: h.vc, id: h.id, vers: make(map[string]string, len(h.vers)), parents: h.parents, pguards: h.pguards, alloc: h.alloc}
	for k, v := range h.vers {
		n.vers[k] = v
	}
	return n
}

func (h *Heap) get(name string) string {
	if v, ok := h.vers[name]; ok {
		return v
	}
	srt, ok := h.vc.arrSort[name]
	if !ok {
		panic("heap array without sort: " + name)
	}
	var v string
	if len(h.parents) == 0 {
		v = fmt.Sprintf("|%s@%d|", name, h.id)
		h.vc.decl(v, fmt.Sprintf("(declare-const %s %s)", v, srt))
	} else {
		terms := make([]string, len(h.parents))
		same := true
		for i, p := range h.parents {
			terms[i] = p.get(name)
			if terms[i] != terms[0] {
				same = false
			}
		}
		if same {
			v = terms[0]
		} else {
			t := terms[len(terms)-1]
			for i := len(terms) - 2; i >= 0; i-- {
				t = fmt.Sprintf("(ite %s %s %s)", h.pguards[i], terms[i], t)
			}
			v = h.vc.define("H."+sanitize(name), srt, t)
		}
	}
	h.vers[name] = v
	return v
}

func (h *Heap) set(name, term string) {
	if h.vc.onWrite != nil {
		h.vc.onWrite(name)
	}
	srt := h.vc.arrSort[name]
	h.vers[name] = h.vc.define("H."+sanitize(name), srt, term)
}

// havocAll returns a heap in which every array is unconstrained.
func (h *Heap) havocAll() *Heap {
	n := h.vc.newHeap()
	a := h.vc.fresh("alloc", "Int")
	h.vc.assume(fmt.Sprintf("(>= %s %s)", a, h.alloc))
	n.alloc = a
	return n
}

// mergeHeaps joins predecessor heaps under their edge guards.
func (vc *VC) mergeHeaps(hs []*Heap, guards []string) *Heap {
	if len(hs) == 1 {
		return hs[0].clone()
	}
	n := vc.newHeap()
	n.parents = hs
	n.pguards = guards
	same := true
	for _, h := range hs {
		if h.alloc != hs[0].alloc {
			same = false
		}
	}
	if same {
		n.alloc = hs[0].alloc
	} else {
		t := hs[len(hs)-1].alloc
		for i := len(hs) - 2; i >= 0; i-- {
			t = fmt.Sprintf("(ite %s %s %s)", guards[i], hs[i].alloc, t)
		}
		n.alloc = vc.define("alloc", "Int", t)
	}
	return n
}

func (vc *VC) arr(name, sort string) string {
	if _, ok := vc.arrSort[name]; !ok {
		vc.arrSort[name] = sort
	}
	return name
}

func (vc *VC) fieldArr(stName string, f *types.Var) string {
	return vc.arr("H."+stName+"."+f.Name(), "(Array Int "+vc.sortOf(f.Type())+")")
}

func (vc *VC) cellArr(t types.Type) string {
	s := vc.sortOf(t)
	return vc.arr("Cell."+sortKey(s), "(Array Int "+s+")")
}

func (vc *VC) elemsArr(t types.Type) string {
	s := vc.sortOf(t)
	return vc.arr("Elems."+sortKey(s), "(Array Int (Array (_ BitVec 64) "+s+"))")
}

func (vc *VC) mapArrs(m *types.Map) (dom, val, ln string) {
	ks, vs := vc.sortOf(m.Key()), vc.sortOf(m.Elem())
	key := sortKey(ks) + "." + sortKey(vs)
	dom = vc.arr("MapDom."+key, "(Array Int (Array "+ks+" Bool))")
	val = vc.arr("MapVal."+key, "(Array Int (Array "+ks+" "+vs+"))")
	ln = vc.arr("MapLen", "(Array Int (_ BitVec 64))")
	return
}

// ---- places (interior pointers) -----------------------------------------

type subSel struct {
	st     *types.Struct
	stSort string
	field  int
	isIdx  bool
	idx    string
}

// Place is an address that is not a plain Ref: a struct field, a slice/array
// element, or a path below one of those / below a cell.
type Place struct {
	kind  int // 0 field, 1 elem, 2 cell
	base  string
	arr   string // heap array name
	idx   string // elem index
	typ   types.Type // type of the addressed location
	sub   []subSel
	rootT types.Type // type stored in the heap array (before sub path)
}

func (vc *VC) accessor(s subSel) string {
	name := strings.Trim(s.stSort, "|")
	return fmt.Sprintf("|%s.%s|", name, s.st.Field(s.field).Name())
}

func (vc *VC) loadPlace(h *Heap, p *Place) string {
	var t string
	switch p.kind {
	case 0, 2:
		t = fmt.Sprintf("(select %s %s)", h.get(p.arr), p.base)
	case 1:
		t = fmt.Sprintf("(select (select %s %s) %s)", h.get(p.arr), p.base, p.idx)
	}
	for _, s := range p.sub {
		if s.isIdx {
			t = fmt.Sprintf("(select %s %s)", t, s.idx)
		} else {
			t = fmt.Sprintf("(%s %s)", vc.accessor(s), t)
		}
	}
	return t
}

func (vc *VC) updSub(cur string, sub []subSel, val string) string {
	if len(sub) == 0 {
		return val
	}
	s := sub[0]
	if s.isIdx {
		return fmt.Sprintf("(store %s %s %s)", cur, s.idx, vc.updSub(fmt.Sprintf("(select %s %s)", cur, s.idx), sub[1:], val))
	}
	name := strings.Trim(s.stSort, "|")
	var parts []string
	for i := 0; i < s.st.NumFields(); i++ {
		acc := fmt.Sprintf("(|%s.%s| %s)", name, s.st.Field(i).Name(), cur)
		if i == s.field {
			parts = append(parts, vc.updSub(acc, sub[1:], val))
		} else {
			parts = append(parts, acc)
		}
	}
	return fmt.Sprintf("(|mk.%s| %s)", name, strings.Join(parts, " "))
}

func (vc *VC) storePlace(h *Heap, p *Place, val string) {
	a := h.get(p.arr)
	switch p.kind {
	case 0, 2:
		nv := val
		if len(p.sub) > 0 {
			nv = vc.updSub(fmt.Sprintf("(select %s %s)", a, p.base), p.sub, val)
		}
		h.set(p.arr, fmt.Sprintf("(store %s %s %s)", a, p.base, nv))
	case 1:
		inner := fmt.Sprintf("(select %s %s)", a, p.base)
		nv := val
		if len(p.sub) > 0 {
			nv = vc.updSub(fmt.Sprintf("(select %s %s)", inner, p.idx), p.sub, val)
		}
		h.set(p.arr, fmt.Sprintf("(store %s %s (store %s %s %s))", a, p.base, inner, p.idx, nv))
	}
}

// wf emits well-formedness facts of a value of Go type t (machine-level
// invariants every Go value satisfies), guarded by g.
func (vc *VC) wf(g, v string, t types.Type, alloc string) {
	var fs []string
	switch t.Underlying().(type) {
	case *types.Pointer, *types.Map:
		fs = append(fs, fmt.Sprintf("(>= %s 0)", v), fmt.Sprintf("(< %s %s)", v, alloc))
	case *types.Slice:
		fs = append(fs,
			fmt.Sprintf("(bvsle (_ bv0 64) (slen %s))", v),
			fmt.Sprintf("(bvsle (slen %s) (scap %s))", v, v),
			fmt.Sprintf("(bvsle (scap %s) (_ bv1099511627776 64))", v),
			fmt.Sprintf("(bvsle (_ bv0 64) (soff %s))", v),
			fmt.Sprintf("(bvsle (soff %s) (_ bv1099511627776 64))", v),
			fmt.Sprintf("(>= (sarr %s) 0)", v), fmt.Sprintf("(< (sarr %s) %s)", v, alloc),
			fmt.Sprintf("(=> (= (sarr %s) 0) (= (scap %s) (_ bv0 64)))", v, v))
	case *types.Interface:
		fs = append(fs, fmt.Sprintf("(>= (itag %s) 0)", v),
			fmt.Sprintf("(=> (= (itag %s) 0) (= (ipay %s) 0))", v, v),
			fmt.Sprintf("(=> (ptrtag (itag %s)) (and (>= (ipay %s) 0) (< (ipay %s) %s)))", v, v, v, alloc))
		vc.decl("ptrtag", "(declare-fun ptrtag (Int) Bool)")
	case *types.Basic:
		if isString(t) {
			fs = append(fs, fmt.Sprintf("(bvsle (_ bv0 64) (strlen %s))", v), fmt.Sprintf("(bvsle (strlen %s) (_ bv1099511627776 64))", v))
		}
	}
	if len(fs) == 0 {
		return
	}
	c := "(and " + strings.Join(fs, " ") + ")"
	if g != "true" && g != "" {
		c = "(=> " + g + " " + c + ")"
	}
	vc.assume(c)
}
