package main

// scan.go: obligations decided on the SSA without a solver (frame.write,
// effect.call, guard.recover); reported with back end "ssa-scan".

func (c *Ctx) scanObligations(prop string) ([]*Obligation, map[string]interface{}) {
	return nil, nil
}
