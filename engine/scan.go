package main

// scan.go: obligations decided on the SSA without a solver (frame.write for
// type invariants, effect.call, guard.recover); reported with back end
// "ssa-scan" and never counted as SMT proofs.

import (
	"fmt"
	"go/token"
	"go/types"
	"os"
	"regexp"
	"sort"
	"strings"

	"golang.org/x/tools/go/ssa"
)

func (c *Ctx) scanObligations(prop string) ([]*Obligation, map[string]interface{}) {
	var out []*Obligation
	info := map[string]interface{}{}
	for _, ti := range c.cf.TypeInvs {
		if ti.Prop != prop {
			continue
		}
		obs, n := c.scanTypeInv(ti)
		out = append(out, obs...)
		info["typeinv "+ti.Type] = fmt.Sprintf("%d functions scanned; fields %v may be written (and %s allocated) only by %d owner functions", n, ti.Fields, ti.Type, len(ti.Owners))
	}
	for _, d := range c.cf.Resets {
		if d.Prop != prop {
			continue
		}
		ob, rinfo := c.scanReset(d)
		out = append(out, ob)
		info["reset "+d.Type] = rinfo
	}
	for _, d := range c.cf.MapOrders {
		if d.Prop != prop {
			continue
		}
		obs, minfo := c.scanMapOrder(d)
		out = append(out, obs...)
		info["maporder "+d.File] = minfo
	}
	for _, pf := range c.cf.PropFiles {
		if pf.Prop != prop {
			continue
		}
		out = append(out, c.scanUntrackedErrors(pf)...)
	}
	for _, d := range c.cf.Callers {
		if d.Prop != prop {
			continue
		}
		ob, cinfo := c.scanCallers(d)
		out = append(out, ob)
		info["callers "+d.Callee] = cinfo
	}
	for _, d := range c.cf.ErrSources {
		if d.Prop != prop {
			continue
		}
		ob, einfo := c.scanErrSources(d)
		out = append(out, ob)
		info["errorsources "+d.Func] = einfo
	}
	for _, d := range c.cf.CycleGuards {
		if d.Prop != prop {
			continue
		}
		obs, cinfo := c.scanCycleGuard(d)
		out = append(out, obs...)
		info["cycleguard "+d.Method] = cinfo
	}
	for _, d := range c.cf.FieldsClosed {
		if d.Prop != prop {
			continue
		}
		out = append(out, c.scanFieldsClosed(d))
	}
	for _, d := range c.cf.GlobalStates {
		if d.Prop != prop {
			continue
		}
		obs, ginfo := c.scanGlobalState(d)
		out = append(out, obs...)
		info["globalstate"] = ginfo
	}
	eo, einfo := c.scanEffects(prop)
	out = append(out, eo...)
	for k, v := range einfo {
		info[k] = v
	}
	ro, rinfo := c.scanRecover(prop)
	out = append(out, ro...)
	for k, v := range rinfo {
		info[k] = v
	}
	if len(info) == 0 {
		return out, nil
	}
	return out, info
}

func (c *Ctx) posStr(p token.Pos) string {
	if !p.IsValid() {
		return ""
	}
	q := c.fset.Position(p)
	return fmt.Sprintf("%s:%d", shortFile(q.Filename), q.Line)
}

func namedStructOf(t types.Type) string {
	if p, ok := t.Underlying().(*types.Pointer); ok {
		t = p.Elem()
	}
	if n, ok := t.(*types.Named); ok {
		return n.Obj().Name()
	}
	return ""
}

// fieldOfLoad: if v is (a load of) the address of field f of *T, return T, f.
func fieldOfLoad(v ssa.Value) (string, string, bool) {
	if u, ok := v.(*ssa.UnOp); ok && u.Op == token.MUL {
		v = u.X
	}
	fa, ok := v.(*ssa.FieldAddr)
	if !ok {
		return "", "", false
	}
	pt, ok := fa.X.Type().Underlying().(*types.Pointer)
	if !ok {
		return "", "", false
	}
	st, ok := pt.Elem().Underlying().(*types.Struct)
	if !ok {
		return "", "", false
	}
	return namedStructOf(pt.Elem()), st.Field(fa.Field).Name(), true
}

// scanTypeInv: one obligation per typeinv: no non-owner function writes the
// fields, updates a map / slice element reached directly through them, or
// allocates the type.  Violations are listed in the obligation's Model.
func (c *Ctx) scanTypeInv(ti *TypeInv) ([]*Obligation, int) {
	owners := map[string]bool{}
	for _, o := range ti.Owners {
		owners[o] = true
	}
	for _, o := range ti.Preserving {
		owners[o] = true
	}
	fields := map[string]bool{}
	for _, f := range ti.Fields {
		fields[f] = true
	}
	var bad []string
	// alias: a non-owner function lets the backing array of a slice-typed field out (the
	// value it builds could then change, or be changed through, the owner's bookkeeping)
	var alias []string
	sliceField := func(v ssa.Value) (string, bool) {
		u, isLoad := v.(*ssa.UnOp)
		if !isLoad || u.Op != token.MUL {
			return "", false
		}
		if _, isSlice := v.Type().Underlying().(*types.Slice); !isSlice {
			return "", false
		}
		if T, f, ok := fieldOfLoad(v); ok && T == ti.Type && fields[f] {
			return f, true
		}
		return "", false
	}
	var names []string
	for n := range c.funcs {
		names = append(names, n)
	}
	sort.Strings(names)
	n := 0
	for _, name := range names {
		fn := c.funcs[name]
		if owners[name] || fn.Blocks == nil {
			continue
		}
		// closures of owners are owners
		if p := fn.Parent(); p != nil && owners[p.RelString(c.tpkg)] {
			continue
		}
		n++
		for _, b := range fn.Blocks {
			for _, in := range b.Instrs {
				switch i := in.(type) {
				case *ssa.Store:
					if f, ok := sliceField(i.Val); ok {
						alias = append(alias, fmt.Sprintf("%s stores the slice %s.%s itself (not a copy) at %s", name, ti.Type, f, c.posStr(i.Pos())))
					}
					// *p = T{...}: a store of the whole struct writes every field
					if pt, isPtr := i.Addr.Type().Underlying().(*types.Pointer); isPtr {
						if _, isSt := pt.Elem().Underlying().(*types.Struct); isSt && namedStructOf(pt.Elem()) == ti.Type {
							if _, fresh := i.Addr.(*ssa.Alloc); !fresh {
								bad = append(bad, fmt.Sprintf("%s overwrites a whole %s at %s", name, ti.Type, c.posStr(i.Pos())))
							}
						}
					}
					if T, f, ok := fieldOfLoad(i.Addr); ok && T == ti.Type && fields[f] {
						if fa, isAddr := i.Addr.(*ssa.FieldAddr); isAddr {
							if _, fresh := fa.X.(*ssa.Alloc); fresh && ti.Stable {
								continue // initialising an object this function has just allocated
							}
							bad = append(bad, fmt.Sprintf("%s writes %s.%s at %s", name, T, f, c.posStr(i.Pos())))
						}
					}
					if ia, ok := i.Addr.(*ssa.IndexAddr); ok {
						if T, f, ok := fieldOfLoad(ia.X); ok && T == ti.Type && fields[f] {
							bad = append(bad, fmt.Sprintf("%s writes an element of %s.%s at %s", name, T, f, c.posStr(i.Pos())))
						}
					}
				case *ssa.MapUpdate:
					if T, f, ok := fieldOfLoad(i.Map); ok && T == ti.Type && fields[f] {
						bad = append(bad, fmt.Sprintf("%s updates map %s.%s at %s", name, T, f, c.posStr(i.Pos())))
					}
				case *ssa.Call:
					if bi, isBi := i.Call.Value.(*ssa.Builtin); isBi {
						// append(field, ...) may hand back the field's own backing array; append(x, field...),
						// copy, len and cap read it
						if bi.Name() == "append" && len(i.Call.Args) > 0 {
							if f, ok := sliceField(i.Call.Args[0]); ok {
								alias = append(alias, fmt.Sprintf("%s appends to the slice %s.%s itself at %s", name, ti.Type, f, c.posStr(i.Pos())))
							}
						}
					} else {
						for _, a := range i.Call.Args {
							if f, ok := sliceField(a); ok {
								alias = append(alias, fmt.Sprintf("%s hands the slice %s.%s itself to a call at %s", name, ti.Type, f, c.posStr(i.Pos())))
							}
						}
					}
					if bi, ok := i.Call.Value.(*ssa.Builtin); ok && (bi.Name() == "delete" || bi.Name() == "clear") {
						if T, f, ok := fieldOfLoad(i.Call.Args[0]); ok && T == ti.Type && fields[f] {
							bad = append(bad, fmt.Sprintf("%s deletes from %s.%s at %s", name, T, f, c.posStr(i.Pos())))
						}
					}
				case *ssa.Slice:
					if f, ok := sliceField(i.X); ok {
						alias = append(alias, fmt.Sprintf("%s re-slices %s.%s (the result shares its backing array) at %s", name, ti.Type, f, c.posStr(i.Pos())))
					}
				case *ssa.Return:
					for _, r := range i.Results {
						if f, ok := sliceField(r); ok {
							alias = append(alias, fmt.Sprintf("%s returns the slice %s.%s itself at %s", name, ti.Type, f, c.posStr(i.Pos())))
						}
					}
				case *ssa.MakeInterface:
					if f, ok := sliceField(i.X); ok {
						alias = append(alias, fmt.Sprintf("%s boxes the slice %s.%s itself at %s", name, ti.Type, f, c.posStr(i.Pos())))
					}
				case *ssa.Alloc:
					if !ti.Stable && !ti.WritersOnly && namedStructOf(i.Type()) == ti.Type {
						if _, isSt := i.Type().(*types.Pointer).Elem().Underlying().(*types.Struct); isSt {
							bad = append(bad, fmt.Sprintf("%s allocates a %s at %s", name, ti.Type, c.posStr(i.Pos())))
						}
					}
				}
			}
		}
	}
	// every owner must exist
	for _, o := range append(append([]string{}, ti.Owners...), ti.Preserving...) {
		if c.funcs[o] == nil {
			bad = append(bad, "owner function not found: "+o)
		}
	}
	kind := "typeinv."
	if ti.Stable {
		kind = "stable."
	}
	if ti.WritersOnly {
		kind = "writers."
	}
	ob := &Obligation{Name: kind + ti.Type + "#frame.write[" + strings.Join(ti.Fields, ",") + "]", Kind: "frame.write", Fn: ti.Type, Backend: "ssa-scan", Status: "ok"}
	if len(bad) > 0 {
		ob.Status = "failed"
		ob.Model = strings.Join(bad, "; ")
	}
	obs := []*Obligation{ob}
	if ti.WritersOnly {
		oa := &Obligation{Name: kind + ti.Type + "#frame.alias[" + strings.Join(ti.Fields, ",") + "]", Kind: "frame.alias", Fn: ti.Type, Backend: "ssa-scan", Status: "ok"}
		if len(alias) > 0 {
			oa.Status = "failed"
			oa.Model = strings.Join(alias, "; ")
		}
		obs = append(obs, oa)
	}
	return obs, n
}

// ---------------------------------------------------------------------------
// effect (frame) contracts: "a sandboxed interpreter cannot reach the world"
//
// Directives:
//   //@ effects C08 roots F1, F2, ...     functions a sandboxed script / its host setup can enter
//   //@ effects C08 guarded F unless expr F may reach the world only when expr (over its entry
//                                         state) is false; each such call site is an SMT obligation
// The frame is "the world": the denied primitives below.  Every function of the
// program (package zygo and its non-standard-library dependencies) has the
// default contract "effects none"; the scan checks it for everything reachable
// from the roots over static calls, closure creation, function-value references
// and interface dispatch.
// ---------------------------------------------------------------------------

var osAllowed = map[string]bool{"IsNotExist": true, "IsExist": true, "IsPermission": true, "IsTimeout": true, "Getpid": true,
	"Getppid": true, "Getpagesize": true, "NewSyscallError": true, "SameFile": true, "IsPathSeparator": true, "NewFile": true}

var deniedPkgs = map[string]bool{"os/exec": true, "io/ioutil": true, "syscall": true, "net": true, "net/http": true, "plugin": true,
	"os/user": true, "os/signal": true, "net/url": false}

func isStdlib(path string) bool {
	first := path
	if i := strings.Index(path, "/"); i >= 0 {
		first = path[:i]
	}
	return !strings.Contains(first, ".")
}

// deniedPrimitive: is f an outside-world primitive?
func deniedPrimitive(f *ssa.Function) bool {
	if f == nil || f.Pkg == nil {
		// methods of instantiated / synthetic functions: decide by receiver package
		if f != nil && f.Signature.Recv() != nil {
			return false
		}
		return false
	}
	path := f.Pkg.Pkg.Path()
	if deniedPkgs[path] || strings.HasPrefix(path, "net/") {
		return true
	}
	if path == "os" && f.Signature.Recv() == nil {
		return !osAllowed[f.Name()] && token.IsExported(f.Name())
	}
	if path == "log" && strings.HasPrefix(f.Name(), "Fatal") {
		return true
	}
	return false
}

type effGraph struct {
	c      *Ctx
	succ   map[*ssa.Function][]*ssa.Function
	denied map[*ssa.Function][]string // direct calls to denied primitives (with position)
	impls  map[string][]*ssa.Function // interface method dispatch cache
	cands  []types.Type
}

func (c *Ctx) inScope(f *ssa.Function) bool {
	if f == nil {
		return false
	}
	var pkg *types.Package
	if f.Pkg != nil {
		pkg = f.Pkg.Pkg
	} else if f.Parent() != nil && f.Parent().Pkg != nil {
		pkg = f.Parent().Pkg.Pkg
	} else if r := f.Signature.Recv(); r != nil {
		t := r.Type()
		if p, ok := t.(*types.Pointer); ok {
			t = p.Elem()
		}
		if n, ok := t.(*types.Named); ok {
			pkg = n.Obj().Pkg()
		}
	}
	if pkg == nil {
		return false
	}
	return !isStdlib(pkg.Path())
}

func (c *Ctx) buildEffGraph() *effGraph {
	g := &effGraph{c: c, succ: map[*ssa.Function][]*ssa.Function{}, denied: map[*ssa.Function][]string{}, impls: map[string][]*ssa.Function{}}
	// candidate concrete types for interface dispatch: named types (and pointers) of in-scope packages
	for _, p := range c.prog.AllPackages() {
		if isStdlib(p.Pkg.Path()) {
			continue
		}
		for _, m := range p.Members {
			if t, ok := m.(*ssa.Type); ok {
				if _, isI := t.Type().Underlying().(*types.Interface); isI {
					continue
				}
				g.cands = append(g.cands, t.Type(), types.NewPointer(t.Type()))
			}
		}
	}
	// function values parked in package-level variables: whoever reads the variable can call them.
	// For every store rooted at a global, the function values in the backward slice of the stored
	// value (within the storing function) are recorded for that global.
	globalFns := map[*ssa.Global][]*ssa.Function{}
	for f := range c.allFuncs {
		if !c.inScope(f) || f.Blocks == nil {
			continue
		}
		for _, b := range f.Blocks {
			for _, in := range b.Instrs {
				var addr, val ssa.Value
				switch x := in.(type) {
				case *ssa.Store:
					addr, val = x.Addr, x.Val
				case *ssa.MapUpdate:
					addr, val = x.Map, x.Value
				default:
					continue
				}
				root := addr
				for depth := 0; depth < 8; depth++ {
					switch y := root.(type) {
					case *ssa.FieldAddr:
						root = y.X
						continue
					case *ssa.IndexAddr:
						root = y.X
						continue
					case *ssa.UnOp:
						root = y.X
						continue
					}
					break
				}
				gl, ok := root.(*ssa.Global)
				if !ok {
					continue
				}
				seenV := map[ssa.Value]bool{}
				var back func(v ssa.Value, d int)
				back = func(v ssa.Value, d int) {
					if v == nil || seenV[v] || d > 12 {
						return
					}
					seenV[v] = true
					switch y := v.(type) {
					case *ssa.Function:
						globalFns[gl] = append(globalFns[gl], y)
						return
					case *ssa.MakeClosure:
						if fn, ok := y.Fn.(*ssa.Function); ok {
							globalFns[gl] = append(globalFns[gl], fn)
						}
					}
					if ins, ok := v.(ssa.Instruction); ok {
						for _, op := range ins.Operands(nil) {
							if op != nil && *op != nil {
								back(*op, d+1)
							}
						}
					}
				}
				back(val, 0)
			}
		}
	}
	for f := range c.allFuncs {
		if !c.inScope(f) || f.Blocks == nil {
			continue
		}
		seen := map[*ssa.Function]bool{}
		add := func(t *ssa.Function) {
			if t == nil || seen[t] {
				return
			}
			seen[t] = true
			if deniedPrimitive(t) {
				return
			}
			if c.inScope(t) {
				g.succ[f] = append(g.succ[f], t)
			}
		}
		for _, b := range f.Blocks {
			for _, in := range b.Instrs {
				var cc *ssa.CallCommon
				switch x := in.(type) {
				case *ssa.Call:
					cc = x.Common()
				case *ssa.Defer:
					cc = x.Common()
				case *ssa.Go:
					cc = x.Common()
				}
				if cc != nil {
					if cal := cc.StaticCallee(); cal != nil && deniedPrimitive(cal) {
						g.denied[f] = append(g.denied[f], fmt.Sprintf("%s at %s", cal.String(), c.posStr(in.Pos())))
					}
					if cal := cc.StaticCallee(); cal != nil {
						add(cal)
					}
					if cc.IsInvoke() {
						for _, t := range g.dispatch(cc.Value.Type(), cc.Method) {
							add(t)
						}
					}
				}
				for _, op := range in.Operands(nil) {
					if op == nil || *op == nil {
						continue
					}
					if cc != nil && *op == cc.Value {
						continue // the callee itself: handled as a call above
					}
					switch v := (*op).(type) {
					case *ssa.Global:
						for _, gf := range globalFns[v] {
							if deniedPrimitive(gf) {
								g.denied[f] = append(g.denied[f], fmt.Sprintf("%s (parked in %s) at %s", gf.String(), v.Name(), c.posStr(in.Pos())))
							}
							add(gf)
						}
					case *ssa.Function:
						if deniedPrimitive(v) {
							g.denied[f] = append(g.denied[f], fmt.Sprintf("%s (taken as a value) at %s", v.String(), c.posStr(in.Pos())))
						}
						add(v)
					case *ssa.MakeClosure:
						if fn, ok := v.Fn.(*ssa.Function); ok {
							add(fn)
						}
					}
				}
				if mc, ok := in.(*ssa.MakeClosure); ok {
					if fn, ok := mc.Fn.(*ssa.Function); ok {
						add(fn)
					}
				}
			}
		}
	}
	return g
}

func (g *effGraph) dispatch(recv types.Type, m *types.Func) []*ssa.Function {
	it, ok := recv.Underlying().(*types.Interface)
	if !ok {
		return nil
	}
	key := types.TypeString(recv, nil) + "." + m.Name()
	if r, ok := g.impls[key]; ok {
		return r
	}
	var out []*ssa.Function
	for _, t := range g.cands {
		if types.Implements(t, it) {
			sel := g.c.prog.MethodSets.MethodSet(t).Lookup(m.Pkg(), m.Name())
			if sel != nil {
				if fn := g.c.prog.MethodValue(sel); fn != nil {
					out = append(out, fn)
				}
			}
		}
	}
	g.impls[key] = out
	return out
}

func (c *Ctx) scanEffects(prop string) ([]*Obligation, map[string]interface{}) {
	var roots []string
	guarded := map[string]string{}
	for _, d := range c.cf.Effects {
		if d.Prop != prop {
			continue
		}
		switch d.Kind {
		case "roots":
			roots = append(roots, d.Funcs...)
		case "guarded":
			guarded[d.Funcs[0]] = d.Expr
		}
	}
	if len(roots) == 0 {
		return nil, nil
	}
	g := c.buildEffGraph()
	// reachesWorld(skip): functions that can reach a denied primitive when the
	// out-edges of every guarded function other than skip are cut
	pred := map[*ssa.Function][]*ssa.Function{}
	for f, ss := range g.succ {
		for _, t := range ss {
			pred[t] = append(pred[t], f)
		}
	}
	reachesWorld := func(skip string) map[*ssa.Function]bool {
		reaches := map[*ssa.Function]bool{}
		var work []*ssa.Function
		for f := range g.denied {
			n := f.RelString(c.tpkg)
			if _, isG := guarded[n]; isG && n != skip {
				continue
			}
			reaches[f] = true
			work = append(work, f)
		}
		for len(work) > 0 {
			f := work[len(work)-1]
			work = work[:len(work)-1]
			for _, p := range pred[f] {
				n := p.RelString(c.tpkg)
				if _, isG := guarded[n]; isG && n != skip {
					continue
				}
				if !reaches[p] {
					reaches[p] = true
					work = append(work, p)
				}
			}
		}
		return reaches
	}
	var out []*Obligation
	info := map[string]interface{}{}
	// guarded functions: SMT obligations that every world-reaching call site is dead under the guard
	guardedOK := map[string]bool{}
	for name, expr := range guarded {
		fn := c.funcs[name]
		if fn == nil {
			out = append(out, &Obligation{Name: name + "#effect.guard", Kind: "effect.guard", Backend: "ssa-scan", Status: "failed", Model: "guarded function not found"})
			continue
		}
		fc := c.cf.Funcs[name]
		if fc == nil {
			fc = &FuncContract{Name: name}
		}
		c.guardExpr = expr
		c.worldReach = reachesWorld(name)
		vc, err := c.verifyFunc(fn, fc, prop, false)
		c.guardExpr = ""
		if err != nil {
			out = append(out, &Obligation{Name: name + "#effect.guard", Kind: "effect.guard", Backend: "ssa-scan", Status: "failed", Model: err.Error()})
			continue
		}
		n := 0
		for _, ob := range vc.obls {
			if ob.Kind == "effect.guard" {
				out = append(out, ob)
				n++
			}
		}
		guardedOK[name] = true
		info["guarded "+name] = fmt.Sprintf("unless %s: %d world-reaching call sites, each an SMT obligation", expr, n)
	}
	sort.Strings(roots)
	nf, ne := 0, 0
	for f, ss := range g.succ {
		_ = f
		nf++
		ne += len(ss)
	}
	for _, r := range roots {
		ob := &Obligation{Name: "effect.closed[" + r + "]", Kind: "effect.call", Fn: r, Backend: "ssa-scan", Status: "ok"}
		rf := c.funcs[r]
		if rf == nil {
			ob.Status, ob.Model = "failed", "root function not found"
			out = append(out, ob)
			continue
		}
		parent := map[*ssa.Function]*ssa.Function{rf: nil}
		queue := []*ssa.Function{rf}
		var bad []string
		nreach := 0
		for len(queue) > 0 {
			f := queue[0]
			queue = queue[1:]
			nreach++
			fname := f.RelString(c.tpkg)
			if _, isG := guarded[fname]; isG && guardedOK[fname] {
				continue // its world-reaching edges are discharged separately (effect.guard)
			}
			if ds := g.denied[f]; len(ds) > 0 {
				var path []string
				for x := f; x != nil; x = parent[x] {
					path = append([]string{x.RelString(c.tpkg)}, path...)
				}
				bad = append(bad, fmt.Sprintf("%s calls %s  [path: %s]", fname, strings.Join(ds, ", "), strings.Join(path, " -> ")))
			}
			for _, t := range g.succ[f] {
				if _, seen := parent[t]; !seen {
					parent[t] = f
					queue = append(queue, t)
				}
			}
		}
		sort.Strings(bad)
		if len(bad) > 0 {
			ob.Status = "failed"
			ob.Model = strings.Join(bad, "\n")
		}
		if os.Getenv("ZVC_DEBUG") != "" {
			fmt.Printf("DEBUG root %s: succ=%d nreach=%d\n", r, len(g.succ[rf]), nreach)
			for _, t := range g.succ[rf] {
				fmt.Printf("   -> %s (guarded=%v)\n", t.RelString(c.tpkg), guarded[t.RelString(c.tpkg)])
			}
		}
		info["reachable from "+r] = nreach
		out = append(out, ob)
	}
	info["effect graph"] = fmt.Sprintf("%d functions with out-edges, %d edges (static calls, closures, function values, interface dispatch) over package zygo and its non-standard-library dependencies", nf, ne)
	return out, info
}

// scanRecover: guard.recover obligations.  Directive (in the contract file):
//
//	//@ guard C01 recover SexpFunction.userfun
//
// Every dynamic call of a function value loaded from that field must sit in a
// function whose body defers a closure that calls recover().
func (c *Ctx) scanRecover(prop string) ([]*Obligation, map[string]interface{}) {
	var out []*Obligation
	info := map[string]interface{}{}
	for _, g := range c.cf.Guards {
		if g.Prop != prop || g.Kind != "recover" {
			continue
		}
		parts := strings.SplitN(g.Arg, ".", 2)
		if len(parts) != 2 {
			continue
		}
		var names []string
		for n := range c.funcs {
			names = append(names, n)
		}
		sort.Strings(names)
		sites := 0
		cnt := map[string]int{}
		for _, name := range names {
			fn := c.funcs[name]
			for _, b := range fn.Blocks {
				for _, in := range b.Instrs {
					call, ok := in.(*ssa.Call)
					if !ok || call.Call.IsInvoke() || call.Call.StaticCallee() != nil {
						continue
					}
					T, f, ok := fieldOfLoad(call.Call.Value)
					if !ok || T != parts[0] || f != parts[1] {
						continue
					}
					sites++
					k := cnt[name]
					cnt[name]++
					ob := &Obligation{Name: fmt.Sprintf("%s#guard.recover[%s]#%d", name, g.Arg, k), Kind: "guard.recover", Fn: name, Backend: "ssa-scan", Status: "ok", Pos: c.posStr(call.Pos())}
					if !hasRecoveringDefer(fn) {
						ob.Status = "failed"
						ob.Model = fmt.Sprintf("%s calls %s at %s outside any deferred recover(): a panic in the callee propagates to the host", name, g.Arg, c.posStr(call.Pos()))
					}
					out = append(out, ob)
				}
			}
		}
		info["guard.recover "+g.Arg] = fmt.Sprintf("%d call sites found", sites)
	}
	return out, info
}

func hasRecoveringDefer(fn *ssa.Function) bool {
	for _, b := range fn.Blocks {
		for _, in := range b.Instrs {
			d, ok := in.(*ssa.Defer)
			if !ok {
				continue
			}
			var callee *ssa.Function
			if mc, ok := d.Call.Value.(*ssa.MakeClosure); ok {
				callee, _ = mc.Fn.(*ssa.Function)
			} else {
				callee = d.Call.StaticCallee()
			}
			if callee == nil {
				continue
			}
			for _, cb := range callee.Blocks {
				for _, ci := range cb.Instrs {
					if c2, ok := ci.(*ssa.Call); ok {
						if bi, ok := c2.Call.Value.(*ssa.Builtin); ok && bi.Name() == "recover" {
							return true
						}
					}
				}
			}
		}
	}
	return false
}

// scanReset: "no history": every field of Type that the reader functions (and
// what they statically call) ever load must be written by the reset function
// (or by what it statically calls), or be reset through a method call on the
// value stored in it.  The set of fields is computed from the SSA on every run,
// so a newly introduced look-back field is covered without touching the contract.
func (c *Ctx) scanReset(d ResetDirective) (*Obligation, string) {
	ob := &Obligation{Name: "reset." + d.Type + "#frame.complete[" + d.Reset + "]", Kind: "frame.write", Fn: d.Reset, Backend: "ssa-scan", Status: "ok"}
	ignore := map[string]bool{}
	for _, f := range d.Ignore {
		ignore[f] = true
	}
	reach := func(roots []string) map[*ssa.Function]bool {
		seen := map[*ssa.Function]bool{}
		var work []*ssa.Function
		for _, r := range roots {
			if f := c.funcs[r]; f != nil {
				seen[f] = true
				work = append(work, f)
			} else {
				ob.Status = "failed"
				ob.Model += "function not found: " + r + "; "
			}
		}
		for len(work) > 0 {
			f := work[len(work)-1]
			work = work[:len(work)-1]
			for _, b := range f.Blocks {
				for _, in := range b.Instrs {
					var cc *ssa.CallCommon
					switch x := in.(type) {
					case *ssa.Call:
						cc = x.Common()
					case *ssa.Defer:
						cc = x.Common()
					}
					if cc == nil {
						continue
					}
					if cal := cc.StaticCallee(); cal != nil && c.inScope(cal) && cal.Pkg == c.pkg && !seen[cal] {
						seen[cal] = true
						work = append(work, cal)
					}
				}
			}
		}
		return seen
	}
	read := map[string]string{}
	for f := range reach(d.Readers) {
		for _, b := range f.Blocks {
			for _, in := range b.Instrs {
				u, ok := in.(*ssa.UnOp)
				if !ok || u.Op != token.MUL {
					continue
				}
				// loads of the field itself or of something inside it (array element, sub-field)
				var addr ssa.Value = u.X
				for {
					if ia, ok := addr.(*ssa.IndexAddr); ok {
						addr = ia.X
						continue
					}
					break
				}
				if T, fld, ok := fieldOfLoad(addr); ok && T == d.Type && !ignore[fld] {
					if _, have := read[fld]; !have {
						read[fld] = f.RelString(c.tpkg)
					}
				}
			}
		}
	}
	written := map[string]bool{}
	for f := range reach([]string{d.Reset}) {
		for _, b := range f.Blocks {
			for _, in := range b.Instrs {
				switch x := in.(type) {
				case *ssa.Store:
					var addr ssa.Value = x.Addr
					for {
						if ia, ok := addr.(*ssa.IndexAddr); ok {
							addr = ia.X
							continue
						}
						break
					}
					if T, fld, ok := fieldOfLoad(addr); ok && T == d.Type {
						if _, isIdx := x.Addr.(*ssa.IndexAddr); isIdx {
							continue // writing one element does not reset an array field
						}
						written[fld] = true
					}
				case *ssa.Call:
					// x.f.Reset() style: a method call whose receiver is the loaded field
					if len(x.Call.Args) > 0 && x.Call.StaticCallee() != nil && strings.Contains(x.Call.StaticCallee().Name(), "Reset") {
						if T, fld, ok := fieldOfLoad(x.Call.Args[0]); ok && T == d.Type {
							written[fld] = true
						}
					}
				}
			}
		}
	}
	var missing []string
	var all []string
	for fld, where := range read {
		all = append(all, fld)
		if !written[fld] {
			missing = append(missing, fmt.Sprintf("%s (read in %s)", fld, where))
		}
	}
	sort.Strings(missing)
	sort.Strings(all)
	if len(missing) > 0 {
		ob.Status = "failed"
		ob.Model += d.Reset + " does not reset fields the readers depend on: " + strings.Join(missing, ", ")
	}
	return ob, fmt.Sprintf("fields of %s read by %v and their callees: %v; all must be written by %s", d.Type, d.Readers, all, d.Reset)
}

// scanMapOrder: order-independence of first-match scans over Go maps.
// Directive:  //@ maporder C20 <file.go>
// For every range-over-map loop in the file that can be left early (a return or
// a jump out of the loop from inside its body), the iteration KEY must not flow
// into anything observable (a call argument, a store, a returned value): which
// key is met first depends on Go's randomised iteration order.  The value may
// be used (entries reached under different keys may share one value); keys may
// be compared, used to index the same map again, or passed to the debug printers.
func (c *Ctx) scanMapOrder(d MapOrderDirective) ([]*Obligation, string) {
	var out []*Obligation
	var names []string
	for n := range c.funcs {
		names = append(names, n)
	}
	sort.Strings(names)
	loops, early := 0, 0
	for _, name := range names {
		fn := c.funcs[name]
		if fn.Blocks == nil || !fn.Pos().IsValid() || shortFile(c.fset.Position(fn.Pos()).Filename) != d.File {
			continue
		}
		k := 0
		for _, b := range fn.Blocks {
			for _, in := range b.Instrs {
				nx, ok := in.(*ssa.Next)
				if !ok || nx.IsString {
					continue
				}
				loops++
				head := nx.Block()
				// natural loop of head
				body := map[*ssa.BasicBlock]bool{head: true}
				for _, p := range fn.Blocks {
					for _, s2 := range p.Succs {
						if s2 == head && head.Dominates(p) {
							stack := []*ssa.BasicBlock{p}
							for len(stack) > 0 {
								n := stack[len(stack)-1]
								stack = stack[:len(stack)-1]
								if body[n] {
									continue
								}
								body[n] = true
								stack = append(stack, n.Preds...)
							}
						}
					}
				}
				// early exit: an edge from a body block other than the head to outside the loop, or a return inside
				hasEarly := false
				for bb := range body {
					if bb == head {
						continue
					}
					for _, s2 := range bb.Succs {
						if !body[s2] {
							// leaving the loop into a panic is an abort, not an early exit with a result
							if len(s2.Instrs) > 0 {
								if _, isPanic := s2.Instrs[len(s2.Instrs)-1].(*ssa.Panic); isPanic {
									continue
								}
							}
							hasEarly = true
						}
					}
					if len(bb.Instrs) > 0 {
						if _, isRet := bb.Instrs[len(bb.Instrs)-1].(*ssa.Return); isRet {
							hasEarly = true
						}
					}
				}
				// blocks reachable after an early exit also count: conservatively, any use of the key anywhere
				var key ssa.Value
				for _, r := range *nx.Referrers() {
					if e, ok := r.(*ssa.Extract); ok && e.Index == 1 {
						key = e
					}
				}
				ob := &Obligation{Name: fmt.Sprintf("%s#order.firstmatch#%d", name, k), Kind: "order.firstmatch", Fn: name, Backend: "ssa-scan", Status: "ok", Pos: c.posStr(nx.Pos())}
				k++
				if hasEarly {
					early++
				}
				if hasEarly && key != nil {
					var bad []string
					seen := map[ssa.Value]bool{}
					var walk func(v ssa.Value)
					walk = func(v ssa.Value) {
						if seen[v] || v.Referrers() == nil {
							return
						}
						seen[v] = true
						for _, r := range *v.Referrers() {
							switch x := r.(type) {
							case *ssa.DebugRef:
							case *ssa.BinOp:
								// comparisons are fine; concatenation etc. propagates
								switch x.Op {
								case token.EQL, token.NEQ, token.LSS, token.GTR, token.LEQ, token.GEQ:
								default:
									walk(x)
								}
							case *ssa.Lookup:
								if x.Index == v {
									continue // indexing a map with the key
								}
								walk(x)
							case *ssa.Call:
								cal := x.Call.StaticCallee()
								if cal != nil && (cal.Name() == "P" || cal.Name() == "Q" || cal.Name() == "VPrintf" || cal.Name() == "vv") {
									continue
								}
								bad = append(bad, fmt.Sprintf("key passed to %s at %s", calleeBareName(x.Common()), c.posStr(x.Pos())))
							case *ssa.Store:
								if onlyFormatsMessage(x.Addr) {
									continue // the key only names the entry in an error / debug message
								}
								bad = append(bad, "key stored at "+c.posStr(x.Pos()))
							case *ssa.Return:
								bad = append(bad, "key returned at "+c.posStr(x.Pos()))
							case *ssa.MapUpdate:
								bad = append(bad, "key written to a map at "+c.posStr(x.Pos()))
							case *ssa.MakeInterface, *ssa.ChangeType, *ssa.Convert, *ssa.Phi, *ssa.Slice, *ssa.ChangeInterface:
								walk(x.(ssa.Value))
							case *ssa.IndexAddr, *ssa.FieldAddr:
								walk(x.(ssa.Value))
							}
						}
					}
					walk(key)
					if len(bad) > 0 {
						ob.Status = "failed"
						sort.Strings(bad)
						ob.Model = "range over a map with an early exit lets the iteration key reach an observable position (result depends on Go's map order): " + strings.Join(bad, "; ")
					}
				}
				out = append(out, ob)
				// accumulation: a slice built by appending keys or values met during the walk
				// records Go's map order, unless the function sorts (a sorted walk)
				var val ssa.Value
				for _, r := range *nx.Referrers() {
					if e, ok := r.(*ssa.Extract); ok && e.Index == 2 {
						val = e
					}
				}
				derived := map[ssa.Value]bool{}
				var mark func(v ssa.Value)
				mark = func(v ssa.Value) {
					if v == nil || derived[v] || v.Referrers() == nil {
						return
					}
					derived[v] = true
					for _, r := range *v.Referrers() {
						switch x := r.(type) {
						case *ssa.MakeInterface, *ssa.ChangeType, *ssa.Convert, *ssa.Phi, *ssa.ChangeInterface, *ssa.FieldAddr, *ssa.IndexAddr, *ssa.UnOp, *ssa.Field, *ssa.Alloc:
							mark(x.(ssa.Value))
						case *ssa.Lookup:
							// what another table holds under the key met (slot[name]) is met in the same order
							mark(x)
						case *ssa.Extract:
							mark(x)
						case *ssa.BinOp:
							switch x.Op {
							case token.EQL, token.NEQ, token.LSS, token.GTR, token.LEQ, token.GEQ:
							default:
								mark(x)
							}
						case *ssa.Store:
							if x.Val == v {
								mark(x.Addr) // a composite literal / varargs slot holding it
								if ia, ok := x.Addr.(*ssa.IndexAddr); ok {
									mark(ia.X)
								}
							}
						case *ssa.Slice:
							mark(x)
						}
					}
				}
				mark(key)
				mark(val)
				sorts := false
				for _, bb := range fn.Blocks {
					for _, in2 := range bb.Instrs {
						if ci, ok := in2.(ssa.CallInstruction); ok {
							if cal := ci.Common().StaticCallee(); cal != nil && cal.Pkg != nil && cal.Pkg.Pkg.Path() == "sort" {
								sorts = true
							}
						}
					}
				}
				var acc []string
				for bb := range body {
					for _, in2 := range bb.Instrs {
						call, ok := in2.(*ssa.Call)
						if !ok {
							continue
						}
						if bi, ok := call.Call.Value.(*ssa.Builtin); ok && bi.Name() == "append" {
							for _, a := range call.Call.Args[1:] {
								if derived[a] {
									acc = append(acc, "append at "+c.posStr(call.Pos()))
								}
							}
						}
						// HashSet records insertion order: feeding it from a map walk is an append in disguise
						if cal := call.Call.StaticCallee(); cal != nil && cal.Name() == "HashSet" {
							for _, a := range call.Call.Args {
								if derived[a] {
									acc = append(acc, "HashSet at "+c.posStr(call.Pos()))
									break
								}
							}
						}
					}
				}
				ob2 := &Obligation{Name: fmt.Sprintf("%s#order.accumulate#%d", name, k-1), Kind: "order.accumulate", Fn: name, Backend: "ssa-scan", Status: "ok", Pos: c.posStr(nx.Pos())}
				if len(acc) > 0 && !sorts {
					ob2.Status = "failed"
					sort.Strings(acc)
					ob2.Model = "range over a map appends what it meets to a slice and the function never sorts: the slice records Go's map order: " + strings.Join(acc, "; ")
				}
				// a sorted walk must sort on something that does not itself come from a map walk:
				// the integer keys of the maps of this package are symbol numbers and hash codes,
				// which are handed out while the builtins are interned in Go map order
				if key != nil && ob2.Status == "ok" {
					if bt, isBasic := key.Type().Underlying().(*types.Basic); isBasic && bt.Info()&types.IsInteger != 0 {
						keyOnly := map[ssa.Value]bool{}
						var mk func(v ssa.Value)
						mk = func(v ssa.Value) {
							if v == nil || keyOnly[v] || v.Referrers() == nil {
								return
							}
							keyOnly[v] = true
							for _, r := range *v.Referrers() {
								switch x := r.(type) {
								case *ssa.Convert, *ssa.ChangeType, *ssa.Phi:
									mk(x.(ssa.Value))
								case *ssa.Store:
									if x.Val == v {
										if ia, ok := x.Addr.(*ssa.IndexAddr); ok {
											mk(ia.X)
										}
									}
								case *ssa.Slice:
									mk(x)
								}
							}
						}
						mk(key)
						var numacc []string
						for bb := range body {
							for _, in2 := range bb.Instrs {
								call, ok := in2.(*ssa.Call)
								if !ok {
									continue
								}
								if bi, ok := call.Call.Value.(*ssa.Builtin); ok && bi.Name() == "append" {
									for _, a := range call.Call.Args[1:] {
										if keyOnly[a] {
											numacc = append(numacc, "append at "+c.posStr(call.Pos()))
										}
									}
								}
							}
						}
						if len(numacc) > 0 {
							ob2.Status = "failed"
							sort.Strings(numacc)
							ob2.Model = "range over a map collects its integer keys (symbol numbers / hash codes, handed out in an order that itself comes from a map walk at interpreter creation): ordering by them is not reproducible: " + strings.Join(numacc, "; ")
						}
					}
				}
				out = append(out, ob2)
				// traversal memory: a call inside the walk that is handed a value which remembers what
				// has been met (declared by an orderstate directive) behaves differently for the
				// entry met first, so the walk order leaks into the result even if it is sorted afterwards
				ob3 := &Obligation{Name: fmt.Sprintf("%s#order.effect#%d", name, k-1), Kind: "order.effect", Fn: name, Backend: "ssa-scan", Status: "ok", Pos: c.posStr(nx.Pos())}
				var eff []string
				for bb := range body {
					for _, in2 := range bb.Instrs {
						ci, ok := in2.(ssa.CallInstruction)
						if !ok {
							continue
						}
						args := append([]ssa.Value{}, ci.Common().Args...)
						for _, a := range args {
							pt, ok := a.Type().Underlying().(*types.Pointer)
							if !ok {
								continue
							}
							nt, ok := pt.Elem().(*types.Named)
							if !ok {
								continue
							}
							for _, os := range c.cf.OrderState {
								if nt.Obj().Name() == os {
									eff = append(eff, fmt.Sprintf("%s gets the *%s at %s", calleeBareName(ci.Common()), os, c.posStr(in2.Pos())))
								}
							}
						}
					}
				}
				if len(eff) > 0 {
					ob3.Status = "failed"
					sort.Strings(eff)
					ob3.Model = "a call inside a range over a map is handed traversal memory: what it does depends on which entry Go's map order presents first: " + strings.Join(eff, "; ")
				}
				out = append(out, ob3)
			}
		}
	}
	return out, fmt.Sprintf("%d range-over-map loops, %d with an early exit", loops, early)
}

// onlyFormatsMessage: addr is a slot of a varargs array that is passed only to fmt / debug printers.
func onlyFormatsMessage(addr ssa.Value) bool {
	ia, ok := addr.(*ssa.IndexAddr)
	if !ok {
		return false
	}
	al, ok := ia.X.(*ssa.Alloc)
	if !ok || al.Referrers() == nil {
		return false
	}
	for _, r := range *al.Referrers() {
		sl, ok := r.(*ssa.Slice)
		if !ok {
			continue
		}
		if sl.Referrers() == nil {
			return false
		}
		for _, u := range *sl.Referrers() {
			call, ok := u.(*ssa.Call)
			if !ok {
				return false
			}
			cal := call.Call.StaticCallee()
			if cal == nil {
				return false
			}
			full := cal.String()
			if !(strings.HasPrefix(full, "fmt.") || cal.Name() == "P" || cal.Name() == "Q" || cal.Name() == "VPrintf" || cal.Name() == "vv") {
				return false
			}
		}
	}
	return true
}

// scanGlobalState: process-wide mutable state.
// Directive:  //@ globalstate C20 | name, name, ...
// A package-level variable of the package under verification that is written after
// package initialisation (a store to it or into it outside init, or its address handed
// to a call or stored) is state shared by every interpreter of the process: what one
// interpreter does can then change what a later, fresh interpreter computes. Every such
// variable must be on the directive's list (each one is an accepted, documented
// dependency); a new one is a failed obligation.
func (c *Ctx) scanGlobalState(d GlobalStateDirective) ([]*Obligation, string) {
	allowed := map[string]bool{}
	for _, a := range d.Allowed {
		allowed[a] = true
	}
	var names []string
	seen := map[string]bool{}
	pkg := c.prog.Package(c.tpkg)
	for _, m := range pkg.Members {
		g, ok := m.(*ssa.Global)
		if !ok || c.immutableGlobals[g] || strings.HasPrefix(g.Name(), "init$") {
			continue
		}
		names = append(names, g.Name())
		seen[g.Name()] = true
	}
	sort.Strings(names)
	var out []*Obligation
	var listed []string
	for _, n := range names {
		if allowed[n] {
			listed = append(listed, n)
			continue
		}
		ob := &Obligation{Name: "global.state[" + n + "]", Kind: "global.state", Fn: "package", Props: []string{d.Prop}, Backend: "ssa-scan", Status: "failed"}
		ob.Model = "package-level variable " + n + " is written (or its address escapes) after package initialisation and is not on the list of accepted process-wide state"
		out = append(out, ob)
	}
	ob := &Obligation{Name: "global.state#closed", Kind: "global.state", Fn: "package", Props: []string{d.Prop}, Backend: "ssa-scan", Status: "ok"}
	out = append(out, ob)
	return out, fmt.Sprintf("%d package-level variables can change after initialisation, all on the accepted list: %v", len(listed), listed)
}

// scanErrSources: the ways a function can fail are an enumerated, reviewed list.
// Directive:  //@ errorsources Cxx Func | regexp
// Every error value Func returns comes (through phis and tuple extracts) from a call, from a
// package-level error variable or from a constant nil. The calls must be of callees whose bare
// name matches the regexp: a new refusal (a helper that rejects a form the language accepts)
// is a new error source and fails until it is reviewed.
func (c *Ctx) scanErrSources(d ErrSourcesDirective) (*Obligation, string) {
	ob := &Obligation{Name: "err.sources[" + d.Func + "]", Kind: "err.sources", Fn: d.Func, Props: []string{d.Prop}, Backend: "ssa-scan", Status: "ok"}
	fn := c.funcs[d.Func]
	if fn == nil || fn.Blocks == nil {
		ob.Status, ob.Model = "failed", "no function "+d.Func
		return ob, ""
	}
	re, err := regexp.Compile("^(" + d.Allowed + ")$")
	if err != nil {
		ob.Status, ob.Model = "failed", "bad regexp: "+err.Error()
		return ob, ""
	}
	ob.Pos = c.posStr(fn.Pos())
	res := fn.Signature.Results()
	ei := -1
	for i := 0; i < res.Len(); i++ {
		if types.TypeString(res.At(i).Type(), nil) == "error" {
			ei = i
		}
	}
	if ei < 0 {
		ob.Status, ob.Model = "failed", "no error result"
		return ob, ""
	}
	seen := map[ssa.Value]bool{}
	srcs := map[string]bool{}
	var bad []string
	var walk func(v ssa.Value)
	walk = func(v ssa.Value) {
		if v == nil || seen[v] {
			return
		}
		seen[v] = true
		switch x := v.(type) {
		case *ssa.Const:
		case *ssa.Phi:
			for _, e := range x.Edges {
				walk(e)
			}
		case *ssa.Extract:
			walk(x.Tuple)
		case *ssa.UnOp:
			if g, ok := x.X.(*ssa.Global); ok {
				srcs["var "+g.Name()] = true
				return
			}
			walk(x.X)
		case *ssa.MakeInterface:
			walk(x.X)
		case *ssa.ChangeInterface:
			walk(x.X)
		case *ssa.Call:
			n := calleeBareName(x.Common())
			srcs[n] = true
			if !re.MatchString(n) {
				bad = append(bad, fmt.Sprintf("%s at %s", n, c.posStr(x.Pos())))
			}
		case *ssa.Alloc:
			// a named / address-taken error variable: whatever is stored into it
			if x.Referrers() != nil {
				for _, r := range *x.Referrers() {
					if st, ok := r.(*ssa.Store); ok && st.Addr == x {
						walk(st.Val)
					}
				}
			}
		default:
			bad = append(bad, fmt.Sprintf("error value of unknown origin (%T) at %s", v, c.posStr(v.Pos())))
		}
	}
	for _, b := range fn.Blocks {
		if len(b.Instrs) == 0 {
			continue
		}
		if r, ok := b.Instrs[len(b.Instrs)-1].(*ssa.Return); ok && ei < len(r.Results) {
			walk(r.Results[ei])
		}
	}
	var all []string
	for n := range srcs {
		all = append(all, n)
	}
	sort.Strings(all)
	if len(bad) > 0 {
		ob.Status = "failed"
		sort.Strings(bad)
		ob.Model = "an error result comes from a callee that is not on the reviewed list of error sources: " + strings.Join(bad, "; ")
	}
	return ob, fmt.Sprintf("error sources of %s: %v", d.Func, all)
}

// scanCycleGuard: recursion over script-made data terminates.
// Directive:  //@ cycleguard Cxx Method | GuardFn | MarkFn | acyclic impl, ...
// Every function of the package named Method (an implementation of the traversal, e.g. the
// printer SexpString) that calls Method again through an interface recurses into values it
// contains. Scripts can make mutable containers contain themselves, so such an implementation
// must (a) ask the traversal memory (a static call of GuardFn that dominates every recursive call)
// and (b) enter itself into it (a static call of MarkFn dominating them too) -- or be on the
// directive's list of implementations whose containers cannot be made cyclic by a script.
// A new recursive implementation fails until it is guarded or classified.
func (c *Ctx) scanCycleGuard(d CycleGuardDirective) ([]*Obligation, string) {
	acyclic := map[string]bool{}
	for _, a := range d.Acyclic {
		acyclic[a] = true
	}
	var names []string
	for n := range c.funcs {
		names = append(names, n)
	}
	sort.Strings(names)
	var out []*Obligation
	nrec, nguard := 0, 0
	// when Method names one function F (a plain function, or a method given with its receiver as
	// in "(*Zlisp).Compare"), the recursion is F -> helper -> F: the helpers F calls directly
	target := c.funcs[d.Method]
	if target == nil {
		for _, n := range names {
			if f := c.funcs[n]; f.Name() == d.Method && f.Signature.Recv() == nil && f.Pkg == c.pkg {
				target = f
			}
		}
	}
	helpers := map[*ssa.Function]bool{}
	if target != nil && target.Blocks != nil {
		for _, b := range target.Blocks {
			for _, in := range b.Instrs {
				if ci, ok := in.(ssa.CallInstruction); ok {
					if f := ci.Common().StaticCallee(); f != nil {
						helpers[f] = true
					}
				}
			}
		}
	}
	for _, name := range names {
		fn := c.funcs[name]
		if fn.Blocks == nil {
			continue
		}
		// Method names either a method (the recursion is the interface call inside its
		// implementations) or a plain function (the recursion is the static call back into it
		// from whoever it hands the container to)
		isImpl := fn.Name() == d.Method && fn.Signature.Recv() != nil
		var rec []ssa.Instruction
		var guards, marks []ssa.Instruction
		for _, b := range fn.Blocks {
			for _, in := range b.Instrs {
				ci, ok := in.(ssa.CallInstruction)
				if !ok {
					continue
				}
				cc := ci.Common()
				if isImpl && cc.IsInvoke() && cc.Method.Name() == d.Method {
					rec = append(rec, in)
				}
				if f := cc.StaticCallee(); f != nil {
					if target != nil && f == target && helpers[fn] {
						rec = append(rec, in)
					}
					switch f.RelString(c.tpkg) {
					case d.Guard:
						guards = append(guards, in)
					case d.Mark:
						marks = append(marks, in)
					}
					if f.Name() == d.Method && f != fn && f.Signature.Recv() != nil {
						// a static call of another implementation: that one is checked itself
						_ = f
					}
				}
			}
		}
		if len(rec) == 0 {
			continue
		}
		nrec++
		ob := &Obligation{Name: name + "#cycle.guard", Kind: "cycle.guard", Fn: name, Props: []string{d.Prop}, Backend: "ssa-scan", Status: "ok", Pos: c.posStr(fn.Pos())}
		if acyclic[name] {
			out = append(out, ob)
			continue
		}
		dominated := func(by []ssa.Instruction, in ssa.Instruction) bool {
			for _, g := range by {
				if g.Block() == in.Block() {
					for _, x := range g.Block().Instrs {
						if x == g {
							return true
						}
						if x == in {
							break
						}
					}
					continue
				}
				if g.Block().Dominates(in.Block()) {
					return true
				}
			}
			return false
		}
		var bad []string
		for _, r := range rec {
			if !dominated(guards, r) {
				bad = append(bad, fmt.Sprintf("recursive %s at %s is not preceded by %s", d.Method, c.posStr(r.Pos()), d.Guard))
			} else if !dominated(marks, r) {
				bad = append(bad, fmt.Sprintf("recursive %s at %s is not preceded by %s", d.Method, c.posStr(r.Pos()), d.Mark))
			}
		}
		if len(bad) > 0 {
			ob.Status = "failed"
			sort.Strings(bad)
			ob.Model = "recursion into contained values without consulting the traversal memory (a script can make the container contain itself; the recursion then exhausts the stack, which kills the process): " + strings.Join(bad, "; ")
		} else {
			nguard++
		}
		out = append(out, ob)
	}
	return out, fmt.Sprintf("%d implementations of %s recurse into contained values, %d guarded by %s/%s, the rest classified acyclic", nrec, d.Method, nguard, d.Guard, d.Mark)
}

// scanCallers: a call funnel.  Directive:  //@ callers Cxx Callee | caller, caller, ...
// Every direct (static) call of Callee, and every place that takes it as a function
// value, must be inside one of the listed functions (or their closures).
func (c *Ctx) scanCallers(d CallersDirective) (*Obligation, string) {
	allowed := map[string]bool{}
	for _, a := range d.Allowed {
		allowed[a] = true
	}
	var names []string
	for n := range c.funcs {
		names = append(names, n)
	}
	sort.Strings(names)
	var bad, seen []string
	for _, name := range names {
		fn := c.funcs[name]
		if fn.Blocks == nil {
			continue
		}
		owner := name
		if p := fn.Parent(); p != nil {
			owner = p.RelString(c.tpkg)
		}
		for _, b := range fn.Blocks {
			for _, in := range b.Instrs {
				uses := false
				if ci, ok := in.(ssa.CallInstruction); ok {
					if f := ci.Common().StaticCallee(); f != nil && f.RelString(c.tpkg) == d.Callee {
						uses = true
					}
					// "invoke:Name": every interface call of a method called Name
					if strings.HasPrefix(d.Callee, "invoke:") && ci.Common().IsInvoke() && ci.Common().Method.Name() == strings.TrimPrefix(d.Callee, "invoke:") {
						uses = true
					}
				}
				for _, op := range in.Operands(nil) {
					if op == nil || *op == nil {
						continue
					}
					if f, ok := (*op).(*ssa.Function); ok && f.RelString(c.tpkg) == d.Callee {
						uses = true
					}
				}
				if !uses {
					continue
				}
				if allowed[owner] || allowed[name] {
					seen = append(seen, name)
					continue
				}
				bad = append(bad, fmt.Sprintf("%s uses %s at %s", name, d.Callee, c.posStr(in.Pos())))
			}
		}
	}
	ob := &Obligation{Name: "call.funnel[" + d.Callee + "]", Kind: "call.funnel", Fn: d.Callee, Props: []string{d.Prop}, Backend: "ssa-scan", Status: "ok"}
	if _, ok := c.funcs[d.Callee]; !ok && !strings.HasPrefix(d.Callee, "invoke:") {
		ob.Status = "failed"
		ob.Model = "no function " + d.Callee
	}
	if len(bad) > 0 {
		ob.Status = "failed"
		ob.Model = strings.Join(bad, "; ")
	}
	return ob, fmt.Sprintf("%s is called only from %v", d.Callee, dedupStrings(seen))
}

func dedupStrings(in []string) []string {
	m := map[string]bool{}
	var out []string
	for _, s := range in {
		if !m[s] {
			m[s] = true
			out = append(out, s)
		}
	}
	return out
}

// reachByCalls: the functions of the package under verification that the given functions
// reach through calls: static calls, interface dispatch and closures they create. A function
// that is only TAKEN AS A VALUE (the builtin tables) is not followed: builtins run under the
// recover of CallUserFunction / Apply (guard.recover obligations).
func (c *Ctx) reachByCalls(roots map[string]bool) []string {
	g := c.modsets().graph
	seen := map[*ssa.Function]bool{}
	var work []*ssa.Function
	for n := range roots {
		if f := c.funcs[n]; f != nil {
			seen[f] = true
			work = append(work, f)
		}
	}
	for len(work) > 0 {
		f := work[len(work)-1]
		work = work[:len(work)-1]
		add := func(t *ssa.Function) {
			if t == nil || seen[t] || t.Blocks == nil || t.Pkg == nil || t.Pkg.Pkg != c.tpkg {
				return
			}
			seen[t] = true
			work = append(work, t)
		}
		for _, b := range f.Blocks {
			for _, in := range b.Instrs {
				if ci, ok := in.(ssa.CallInstruction); ok {
					cc := ci.Common()
					if cal := cc.StaticCallee(); cal != nil {
						add(cal)
					}
					if cc.IsInvoke() {
						for _, t := range g.dispatch(cc.Value.Type(), cc.Method) {
							add(t)
						}
					}
				}
				if mc, ok := in.(*ssa.MakeClosure); ok {
					if fn, ok := mc.Fn.(*ssa.Function); ok {
						add(fn)
					}
				}
			}
		}
	}
	var out []string
	for f := range seen {
		n := f.RelString(c.tpkg)
		if _, ok := c.funcs[n]; ok {
			out = append(out, n)
		}
	}
	sort.Strings(out)
	return out
}

// scanUntrackedErrors: the error-propagation obligations follow an error from the call that
// returns it to the return of the calling function. A function of the file that has NO error
// result (typically a closure that parks the error in a captured variable) but calls one of
// the propagating functions takes the error out of that reach: not allowed.
func (c *Ctx) scanUntrackedErrors(pf PropFile) []*Obligation {
	re, err := regexp.Compile(pf.Re)
	if err != nil {
		return nil
	}
	var names []string
	for n := range c.funcs {
		names = append(names, n)
	}
	sort.Strings(names)
	var bad []string
	for _, name := range names {
		fn := c.funcs[name]
		if fn.Blocks == nil || !fn.Pos().IsValid() || shortFile(c.fset.Position(fn.Pos()).Filename) != pf.File {
			continue
		}
		res := fn.Signature.Results()
		if res.Len() > 0 && types.TypeString(res.At(res.Len()-1).Type(), nil) == "error" {
			continue
		}
		for _, b := range fn.Blocks {
			for _, in := range b.Instrs {
				ci, ok := in.(ssa.CallInstruction)
				if !ok {
					continue
				}
				cc := ci.Common()
				if !re.MatchString(calleeBareName(cc)) {
					continue
				}
				sig, _ := cc.Value.Type().Underlying().(*types.Signature)
				if cc.IsInvoke() {
					sig, _ = cc.Method.Type().(*types.Signature)
				}
				if sig == nil || sig.Results().Len() == 0 || types.TypeString(sig.Results().At(sig.Results().Len()-1).Type(), nil) != "error" {
					continue
				}
				bad = append(bad, fmt.Sprintf("%s (no error result) calls %s at %s", name, calleeBareName(cc), c.posStr(in.Pos())))
			}
		}
	}
	ob := &Obligation{Name: "err.untracked[" + pf.File + "]", Kind: "err.untracked", Fn: pf.File, Props: []string{pf.Prop}, Backend: "ssa-scan", Status: "ok"}
	if len(bad) > 0 {
		ob.Status = "failed"
		ob.Model = "an error of a propagating call can leave through a function without an error result: " + strings.Join(bad, "; ")
	}
	return []*Obligation{ob}
}

// scanFieldsClosed: the state of a type is enumerated.
// Directive:  //@ fieldsclosed Cxx Type | f1, f2, ...
// The struct has exactly the listed fields. A field that is not on the list is state nobody
// has classified (is it restored when an evaluation fails? reset between texts? shared by
// duplicates?): the obligation fails until the list, and with it the contracts, are revisited.
func (c *Ctx) scanFieldsClosed(d FieldsClosedDirective) *Obligation {
	ob := &Obligation{Name: "fields.closed[" + d.Type + "]", Kind: "fields.closed", Fn: d.Type, Props: []string{d.Prop}, Backend: "ssa-scan", Status: "ok"}
	obj := c.tpkg.Scope().Lookup(d.Type)
	if obj == nil {
		ob.Status = "failed"
		ob.Model = "no type " + d.Type
		return ob
	}
	st, ok := obj.Type().Underlying().(*types.Struct)
	if !ok {
		ob.Status = "failed"
		ob.Model = d.Type + " is not a struct"
		return ob
	}
	listed := map[string]bool{}
	for _, f := range d.Fields {
		listed[f] = true
	}
	var extra, gone []string
	have := map[string]bool{}
	for i := 0; i < st.NumFields(); i++ {
		n := st.Field(i).Name()
		have[n] = true
		if !listed[n] {
			extra = append(extra, n)
		}
	}
	for _, f := range d.Fields {
		if !have[f] {
			gone = append(gone, f)
		}
	}
	if len(extra) > 0 || len(gone) > 0 {
		ob.Status = "failed"
		ob.Model = fmt.Sprintf("%s: fields not on the reviewed list: %v; listed fields that no longer exist: %v", d.Type, extra, gone)
	}
	return ob
}
