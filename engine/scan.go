package main

// scan.go: obligations decided on the SSA without a solver (frame.write for
// type invariants, effect.call, guard.recover); reported with back end
// "ssa-scan" and never counted as SMT proofs.

import (
	"fmt"
	"go/token"
	"go/types"
	"sort"
	"strings"

	"golang.org/x/tools/go/ssa"
)

func (c *Ctx) scanObligations(prop string) ([]*Obligation, map[string]interface{}) {
	var out []*Obligation
	info := map[string]interface{}{}
	for _, ti := range c.cf.TypeInvs {
		if ti.Prop != prop {
			continue
		}
		obs, n := c.scanTypeInv(ti)
		out = append(out, obs...)
		info["typeinv "+ti.Type] = fmt.Sprintf("%d functions scanned; fields %v may be written (and %s allocated) only by %d owner functions", n, ti.Fields, ti.Type, len(ti.Owners))
	}
	eo, einfo := c.scanEffects(prop)
	out = append(out, eo...)
	for k, v := range einfo {
		info[k] = v
	}
	ro, rinfo := c.scanRecover(prop)
	out = append(out, ro...)
	for k, v := range rinfo {
		info[k] = v
	}
	if len(info) == 0 {
		return out, nil
	}
	return out, info
}

func (c *Ctx) posStr(p token.Pos) string {
	if !p.IsValid() {
		return ""
	}
	q := c.fset.Position(p)
	return fmt.Sprintf("%s:%d", shortFile(q.Filename), q.Line)
}

func namedStructOf(t types.Type) string {
	if p, ok := t.Underlying().(*types.Pointer); ok {
		t = p.Elem()
	}
	if n, ok := t.(*types.Named); ok {
		return n.Obj().Name()
	}
	return ""
}

// fieldOfLoad: if v is (a load of) the address of field f of *T, return T, f.
func fieldOfLoad(v ssa.Value) (string, string, bool) {
	if u, ok := v.(*ssa.UnOp); ok && u.Op == token.MUL {
		v = u.X
	}
	fa, ok := v.(*ssa.FieldAddr)
	if !ok {
		return "", "", false
	}
	pt, ok := fa.X.Type().Underlying().(*types.Pointer)
	if !ok {
		return "", "", false
	}
	st, ok := pt.Elem().Underlying().(*types.Struct)
	if !ok {
		return "", "", false
	}
	return namedStructOf(pt.Elem()), st.Field(fa.Field).Name(), true
}

// scanTypeInv: one obligation per typeinv: no non-owner function writes the
// fields, updates a map / slice element reached directly through them, or
// allocates the type.  Violations are listed in the obligation's Model.
func (c *Ctx) scanTypeInv(ti *TypeInv) ([]*Obligation, int) {
	owners := map[string]bool{}
	for _, o := range ti.Owners {
		owners[o] = true
	}
	fields := map[string]bool{}
	for _, f := range ti.Fields {
		fields[f] = true
	}
	var bad []string
	var names []string
	for n := range c.funcs {
		names = append(names, n)
	}
	sort.Strings(names)
	n := 0
	for _, name := range names {
		fn := c.funcs[name]
		if owners[name] || fn.Blocks == nil {
			continue
		}
		// closures of owners are owners
		if p := fn.Parent(); p != nil && owners[p.RelString(c.tpkg)] {
			continue
		}
		n++
		for _, b := range fn.Blocks {
			for _, in := range b.Instrs {
				switch i := in.(type) {
				case *ssa.Store:
					if T, f, ok := fieldOfLoad(i.Addr); ok && T == ti.Type && fields[f] {
						if _, isAddr := i.Addr.(*ssa.FieldAddr); isAddr {
							bad = append(bad, fmt.Sprintf("%s writes %s.%s at %s", name, T, f, c.posStr(i.Pos())))
						}
					}
					if ia, ok := i.Addr.(*ssa.IndexAddr); ok {
						if T, f, ok := fieldOfLoad(ia.X); ok && T == ti.Type && fields[f] {
							bad = append(bad, fmt.Sprintf("%s writes an element of %s.%s at %s", name, T, f, c.posStr(i.Pos())))
						}
					}
				case *ssa.MapUpdate:
					if T, f, ok := fieldOfLoad(i.Map); ok && T == ti.Type && fields[f] {
						bad = append(bad, fmt.Sprintf("%s updates map %s.%s at %s", name, T, f, c.posStr(i.Pos())))
					}
				case *ssa.Call:
					if bi, ok := i.Call.Value.(*ssa.Builtin); ok && (bi.Name() == "delete" || bi.Name() == "clear") {
						if T, f, ok := fieldOfLoad(i.Call.Args[0]); ok && T == ti.Type && fields[f] {
							bad = append(bad, fmt.Sprintf("%s deletes from %s.%s at %s", name, T, f, c.posStr(i.Pos())))
						}
					}
				case *ssa.Alloc:
					if !ti.Stable && namedStructOf(i.Type()) == ti.Type {
						if _, isSt := i.Type().(*types.Pointer).Elem().Underlying().(*types.Struct); isSt {
							bad = append(bad, fmt.Sprintf("%s allocates a %s at %s", name, ti.Type, c.posStr(i.Pos())))
						}
					}
				}
			}
		}
	}
	// every owner must exist
	for _, o := range ti.Owners {
		if c.funcs[o] == nil {
			bad = append(bad, "owner function not found: "+o)
		}
	}
	kind := "typeinv."
	if ti.Stable {
		kind = "stable."
	}
	ob := &Obligation{Name: kind + ti.Type + "#frame.write[" + strings.Join(ti.Fields, ",") + "]", Kind: "frame.write", Fn: ti.Type, Backend: "ssa-scan", Status: "ok"}
	if len(bad) > 0 {
		ob.Status = "failed"
		ob.Model = strings.Join(bad, "; ")
	}
	return []*Obligation{ob}, n
}

func (c *Ctx) scanEffects(prop string) ([]*Obligation, map[string]interface{}) { return nil, nil }
// scanRecover: guard.recover obligations.  Directive (in the contract file):
//   //@ guard C01 recover SexpFunction.userfun
// Every dynamic call of a function value loaded from that field must sit in a
// function whose body defers a closure that calls recover().
func (c *Ctx) scanRecover(prop string) ([]*Obligation, map[string]interface{}) {
	var out []*Obligation
	info := map[string]interface{}{}
	for _, g := range c.cf.Guards {
		if g.Prop != prop || g.Kind != "recover" {
			continue
		}
		parts := strings.SplitN(g.Arg, ".", 2)
		if len(parts) != 2 {
			continue
		}
		var names []string
		for n := range c.funcs {
			names = append(names, n)
		}
		sort.Strings(names)
		sites := 0
		cnt := map[string]int{}
		for _, name := range names {
			fn := c.funcs[name]
			for _, b := range fn.Blocks {
				for _, in := range b.Instrs {
					call, ok := in.(*ssa.Call)
					if !ok || call.Call.IsInvoke() || call.Call.StaticCallee() != nil {
						continue
					}
					T, f, ok := fieldOfLoad(call.Call.Value)
					if !ok || T != parts[0] || f != parts[1] {
						continue
					}
					sites++
					k := cnt[name]
					cnt[name]++
					ob := &Obligation{Name: fmt.Sprintf("%s#guard.recover[%s]#%d", name, g.Arg, k), Kind: "guard.recover", Fn: name, Backend: "ssa-scan", Status: "ok", Pos: c.posStr(call.Pos())}
					if !hasRecoveringDefer(fn) {
						ob.Status = "failed"
						ob.Model = fmt.Sprintf("%s calls %s at %s outside any deferred recover(): a panic in the callee propagates to the host", name, g.Arg, c.posStr(call.Pos()))
					}
					out = append(out, ob)
				}
			}
		}
		info["guard.recover "+g.Arg] = fmt.Sprintf("%d call sites found", sites)
	}
	return out, info
}

func hasRecoveringDefer(fn *ssa.Function) bool {
	for _, b := range fn.Blocks {
		for _, in := range b.Instrs {
			d, ok := in.(*ssa.Defer)
			if !ok {
				continue
			}
			var callee *ssa.Function
			if mc, ok := d.Call.Value.(*ssa.MakeClosure); ok {
				callee, _ = mc.Fn.(*ssa.Function)
			} else {
				callee = d.Call.StaticCallee()
			}
			if callee == nil {
				continue
			}
			for _, cb := range callee.Blocks {
				for _, ci := range cb.Instrs {
					if c2, ok := ci.(*ssa.Call); ok {
						if bi, ok := c2.Call.Value.(*ssa.Builtin); ok && bi.Name() == "recover" {
							return true
						}
					}
				}
			}
		}
	}
	return false
}
