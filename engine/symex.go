package main

// symex.go: symbolic execution of one go/ssa function into SMT, cut at loop
// heads, with obligations generated for contracts and for panicking
// instructions.

import (
	"bytes"
	"fmt"
	"go/ast"
	"go/constant"
	"go/printer"
	"go/token"
	"go/types"
	"os"
	"regexp"
	"sort"
	"strings"

	"golang.org/x/tools/go/ast/astutil"
	"golang.org/x/tools/go/ssa"
)

type Val struct {
	T     string
	Tup   []*Val
	P     *Place
	Fn    *ssa.Function
	Binds []*Val
	Arr1  *Val // for a slice made of a 1-element array: the array Ref (single-element append)
}

type blockState struct {
	heap   *Heap
	guard  string
	ghosts map[string]TV // ghost variables are path-sensitive state, merged like SSA phis
}

func cloneGhosts(g map[string]TV) map[string]TV {
	n := make(map[string]TV, len(g))
	for k, v := range g {
		n[k] = v
	}
	return n
}

type autoInv struct {
	phi *ssa.Phi
	lo  string
}

type partialHavoc struct {
	guard string
	set   map[string]bool
}

type loopInfo struct {
	modCallees map[*ssa.Function]bool
	autoPhis   []autoInv
	head       *ssa.BasicBlock
	ordinal    int
	body       map[*ssa.BasicBlock]bool
	writes     map[string]bool
	havocAll   bool
}

type Exec struct {
	vc               *VC
	fn               *ssa.Function
	prop             string
	vals             map[ssa.Value]*Val
	out              map[*ssa.BasicBlock]*blockState
	edgeG            map[[2]int]string // (pred index, succ index, occurrence) -> guard
	loops            map[*ssa.BasicBlock]*loopInfo
	inLoops          map[*ssa.BasicBlock][]*loopInfo
	pass             int
	entry            *Heap
	params           map[string]TV
	entryGhosts      map[string]TV
	callOrd          map[string]int
	callIdxOf        map[ssa.Instruction]int // ordinal of call per callee name in source order
	preLoops         map[*ssa.BasicBlock]*loopInfo
	deferred         []deferredCall
	deferGuard       map[*ssa.Defer]string
	partialHavocs    []partialHavoc
	propRe           *regexp.Regexp
	subErrSites      []string
	mapStoreOrd      map[*ssa.MapUpdate]int
	tiDone           map[string]bool
	tiRelevant       map[int]bool
	privAllocs       map[*ssa.Alloc]bool
	roCells          map[*ssa.Alloc]ssa.Value
	roStored         map[*ssa.Alloc]bool
	frameActive      bool
	frameLocs        []modLoc
	nopanic          bool
	nonil            bool
	nilsweep         bool // panic.nil obligations for dereferences of call results / map lookups / comma-ok results
	hasDefer         bool
	abstractedGuards []string
	cur              *blockState
	curBlk           *ssa.BasicBlock
	rets             []retInfo
}

// ---------- naming helpers ------------------------------------------------

func (vc *VC) snippetAt(pos token.Pos, want func(ast.Node) bool) string {
	if !pos.IsValid() {
		return ""
	}
	for _, f := range vc.ctx.files {
		if f.Pos() <= pos && pos <= f.End() {
			path, _ := astutil.PathEnclosingInterval(f, pos, pos)
			for _, n := range path {
				if want(n) {
					var buf bytes.Buffer
					printer.Fprint(&buf, vc.ctx.fset, n)
					s := strings.Join(strings.Fields(buf.String()), " ")
					if len(s) > 70 {
						s = s[:70] + "~"
					}
					return s
				}
			}
		}
	}
	return ""
}

func (vc *VC) oblName(fn, kind, snippet, label string) string {
	base := fn + "#" + kind
	if label != "" {
		base += "." + label
	}
	if snippet != "" {
		base += "[" + snippet + "]"
	}
	k := vc.snipCnt[base]
	vc.snipCnt[base] = k + 1
	if k > 0 || (snippet != "" && label == "") {
		base += fmt.Sprintf("#%d", k)
	}
	return base
}

func (ex *Exec) oblig(kind, label, snippet string, pos token.Pos, goal string, props []string) *Obligation {
	vc := ex.vc
	o := &Obligation{
		Name: vc.oblName(vc.fnName(), kind, snippet, label), Kind: kind, Fn: vc.fnName(),
		Goal: goal, Prefix: len(vc.body), Snippet: snippet, Props: props, vc: vc,
	}
	if pos.IsValid() {
		p := vc.ctx.fset.Position(pos)
		o.Pos = fmt.Sprintf("%s:%d", shortFile(p.Filename), p.Line)
	}
	if ex.pass == 2 {
		vc.obls = append(vc.obls, o)
	}
	return o
}

func shortFile(s string) string {
	if i := strings.LastIndex(s, "/"); i >= 0 {
		return s[i+1:]
	}
	return s
}

func (vc *VC) fnName() string { return vc.fn.RelString(vc.ctx.tpkg) }

// ---------- type tags / interfaces ------------------------------------------

func (c *Ctx) tagOf(t types.Type) int {
	k := types.TypeString(t, nil)
	if n, ok := c.tags[k]; ok {
		return n
	}
	n := len(c.tags) + 1
	c.tags[k] = n
	c.tagTypes[n] = t
	return n
}

func (vc *VC) tagFacts() []string {
	var out []string
	var ns []int
	for n := range vc.ctx.tagTypes {
		ns = append(ns, n)
	}
	sort.Ints(ns)
	for _, n := range ns {
		t := vc.ctx.tagTypes[n]
		_, isPtr := t.Underlying().(*types.Pointer)
		_, isMap := t.Underlying().(*types.Map)
		if vc.declSet["ptrtag"] {
			out = append(out, fmt.Sprintf("(assert (= (ptrtag %d) %v))", n, isPtr || isMap))
		}
		for name, it := range vc.ctx.usedIfaces {
			if !vc.declSet["impl "+name] {
				continue
			}
			out = append(out, fmt.Sprintf("(assert (= (|impl.%s| %d) %v))", name, n, types.Implements(t, it)))
		}
	}
	if vc.declSet["ptrtag"] {
		out = append(out, "(assert (not (ptrtag 0)))")
	}
	for name := range vc.ctx.usedIfaces {
		if vc.declSet["impl "+name] {
			out = append(out, fmt.Sprintf("(assert (not (|impl.%s| 0)))", name))
		}
	}
	sort.Strings(out)
	return out
}

func (vc *VC) implPred(it types.Type) string {
	name := sanitize(types.TypeString(it, func(p *types.Package) string { return p.Name() }))
	if len(name) > 60 {
		name = name[:60]
	}
	vc.ctx.usedIfaces[name] = it.Underlying().(*types.Interface)
	vc.decl("impl "+name, fmt.Sprintf("(declare-fun |impl.%s| (Int) Bool)", name))
	return "|impl." + name + "|"
}

func (vc *VC) makeIface(x string, t types.Type) string {
	if isIface(t) {
		return x
	}
	tag := vc.ctx.tagOf(t)
	s := vc.sortOf(t)
	if s == sRef {
		return fmt.Sprintf("(mk_iface %d %s)", tag, x)
	}
	k := sortKey(s)
	vc.decl("box "+k, fmt.Sprintf("(declare-fun |box.%s| (%s) Int)", k, s))
	vc.decl("unbox "+k, fmt.Sprintf("(declare-fun |unbox.%s| (Int) %s)", k, s))
	vc.assume(fmt.Sprintf("(= (|unbox.%s| (|box.%s| %s)) %s)", k, k, x, x))
	return fmt.Sprintf("(mk_iface %d (|box.%s| %s))", tag, k, x)
}

func (vc *VC) ifacePayload(x string, t types.Type) string {
	if isIface(t) {
		return x
	}
	s := vc.sortOf(t)
	if s == sRef {
		return "(ipay " + x + ")"
	}
	k := sortKey(s)
	vc.decl("box "+k, fmt.Sprintf("(declare-fun |box.%s| (%s) Int)", k, s))
	vc.decl("unbox "+k, fmt.Sprintf("(declare-fun |unbox.%s| (Int) %s)", k, s))
	return fmt.Sprintf("(|unbox.%s| (ipay %s))", k, x)
}

// ---------- conversions -----------------------------------------------------

func (vc *VC) uf(name string, argSorts []string, ret string, args ...string) string {
	q := "|uf." + name + "|"
	vc.decl("uf "+name, fmt.Sprintf("(declare-fun %s (%s) %s)", q, strings.Join(argSorts, " "), ret))
	if len(args) == 0 {
		return q
	}
	return "(" + q + " " + strings.Join(args, " ") + ")"
}

func (vc *VC) convert(x string, from, to types.Type) string {
	fs, ts := vc.sortOf(from), vc.sortOf(to)
	fb, fsg, fok := intInfo(from)
	tb, tsg, tok := intInfo(to)
	switch {
	case fok && tok:
		if fb == tb {
			return x
		}
		if fb < tb {
			if fsg {
				return fmt.Sprintf("((_ sign_extend %d) %s)", tb-fb, x)
			}
			return fmt.Sprintf("((_ zero_extend %d) %s)", tb-fb, x)
		}
		return fmt.Sprintf("((_ extract %d 0) %s)", tb-1, x)
	case fok && isFloat(to):
		// integer -> float conversion is abstracted: an uninterpreted function whose
		// results are finite (true of every Go integer type); bit-blasting to_fp of a
		// 64-bit vector makes the FP obligations intractable.
		sg := "u"
		if fsg {
			sg = "s"
		}
		name := fmt.Sprintf("i2f.%s%d.%s", sg, fb, sortKey(ts))
		r := vc.uf(name, []string{fs}, ts, x)
		vc.assume(fmt.Sprintf("(and (not (fp.isNaN %s)) (not (fp.isInfinite %s)))", r, r))
		return r
	case isFloat(from) && tok:
		if tsg {
			return fmt.Sprintf("((_ fp.to_sbv %d) RTZ %s)", tb, x)
		}
		return fmt.Sprintf("((_ fp.to_ubv %d) RTZ %s)", tb, x)
	case isFloat(from) && isFloat(to):
		if fs == ts {
			return x
		}
		eb, sb := 11, 53
		if ts == sF32 {
			eb, sb = 8, 24
		}
		return fmt.Sprintf("((_ to_fp %d %d) RNE %s)", eb, sb, x)
	case fs == ts:
		return x
	case fok && ts == sStr:
		return vc.uf("str_of_rune."+sortKey(fs), []string{fs}, sStr, x)
	}
	return vc.uf("conv."+sortKey(fs)+"."+sortKey(ts), []string{fs}, ts, x)
}

// ---------- globals ----------------------------------------------------------

func (vc *VC) globalRef(g *ssa.Global) string {
	n := vc.ctx.globalAddr(g)
	return fmt.Sprintf("%d", n)
}

func (c *Ctx) globalAddr(g *ssa.Global) int {
	k := g.String()
	if n, ok := c.globals[k]; ok {
		return n
	}
	n := len(c.globals) + 1
	c.globals[k] = n
	return n
}

// globalValue returns the value of a package-level variable.
func (vc *VC) globalValue(h *Heap, v *types.Var) string {
	var g *ssa.Global
	if v.Pkg() == vc.ctx.tpkg {
		g, _ = vc.ctx.pkg.Members[v.Name()].(*ssa.Global)
	} else if sp := vc.ctx.prog.Package(v.Pkg()); sp != nil {
		g, _ = sp.Members[v.Name()].(*ssa.Global)
	}
	if g == nil {
		return vc.fresh("gv."+v.Name(), vc.sortOf(v.Type()))
	}
	return vc.loadGlobal(h, g)
}

func (vc *VC) loadGlobal(h *Heap, g *ssa.Global) string {
	et := g.Type().(*types.Pointer).Elem()
	if vc.ctx.immutableGlobals[g] {
		n := "|gv." + g.Name() + "|"
		if g.Pkg != vc.ctx.pkg {
			n = "|gv." + g.Pkg.Pkg.Name() + "." + g.Name() + "|"
		}
		vc.decl(n, fmt.Sprintf("(declare-const %s %s)", n, vc.sortOf(et)))
		if ci := vc.ctx.constInit[g]; ci != nil && !vc.declSet["ci "+n] {
			vc.declSet["ci "+n] = true
			ex0 := &Exec{vc: vc}
			if st, isSt := et.Underlying().(*types.Struct); isSt {
				srt := strings.Trim(vc.structSort(et, st), "|")
				zeroFields := map[int]bool{}
				for fi := 0; fi < st.NumFields(); fi++ {
					zeroFields[fi] = true
				}
				for fi, cv := range ci {
					if fi < 0 {
						continue
					}
					delete(zeroFields, fi)
					if cv == nil {
						continue
					}
					vc.globalInitFacts = append(vc.globalInitFacts, fmt.Sprintf("(assert (= (|%s.%s| %s) %s))", srt, st.Field(fi).Name(), n, ex0.constTerm(cv)))
				}
				// fields never stored by init keep their zero value
				for fi := range zeroFields {
					vc.globalInitFacts = append(vc.globalInitFacts, fmt.Sprintf("(assert (= (|%s.%s| %s) %s))", srt, st.Field(fi).Name(), n, vc.zero(st.Field(fi).Type())))
				}
			} else if cv := ci[-1]; cv != nil && len(ci) == 1 {
				vc.globalInitFacts = append(vc.globalInitFacts, fmt.Sprintf("(assert (= %s %s))", n, ex0.constTerm(cv)))
			}
		}
		if vc.ctx.uniqueAllocGlobals[g] {
			if vc.ctx.errGlobals[g] {
				vc.ctx.usedUniqueErr[n] = true
			} else {
				vc.ctx.usedUnique[n] = true
			}
		}
		return n
	}
	if _, isSt := et.Underlying().(*types.Struct); isSt {
		return vc.loadStruct(h, vc.globalRef(g), et)
	}
	return fmt.Sprintf("(select %s %s)", h.get(vc.cellArr(et)), vc.globalRef(g))
}

func (vc *VC) globalFacts() []string {
	out0 := append([]string{}, vc.globalInitFacts...)
	sort.Strings(out0)
	defer func() {}()
	var ns []string
	for n := range vc.ctx.usedUnique {
		if vc.declSet[n] {
			ns = append(ns, n)
		}
	}
	sort.Strings(ns)
	out := out0
	for _, n := range ns {
		out = append(out, fmt.Sprintf("(assert (and (> %s 1000) (< %s alloc0)))", n, n))
	}
	if len(ns) > 1 {
		out = append(out, "(assert (distinct "+strings.Join(ns, " ")+"))")
	}
	var es []string
	for n := range vc.ctx.usedUniqueErr {
		if vc.declSet[n] {
			es = append(es, n)
		}
	}
	sort.Strings(es)
	for _, n := range es {
		out = append(out, fmt.Sprintf("(assert (and (not (= (itag %s) 0)) (> (ipay %s) 1000) (< (ipay %s) alloc0)))", n, n, n))
	}
	if len(es) > 1 {
		out = append(out, "(assert (distinct "+strings.Join(es, " ")+"))")
	}
	return out
}

func (vc *VC) loadStruct(h *Heap, ref string, t types.Type) string {
	st := t.Underlying().(*types.Struct)
	srt := vc.structSort(t, st)
	name := strings.Trim(srt, "|")
	if st.NumFields() == 0 {
		return "(|mk." + name + "| true)"
	}
	var parts []string
	for i := 0; i < st.NumFields(); i++ {
		arr := vc.fieldArr(vc.structName(t, st), st.Field(i))
		parts = append(parts, fmt.Sprintf("(select %s %s)", h.get(arr), ref))
	}
	return "(|mk." + name + "| " + strings.Join(parts, " ") + ")"
}

func (vc *VC) storeStruct(h *Heap, ref, val string, t types.Type) {
	st := t.Underlying().(*types.Struct)
	srt := vc.structSort(t, st)
	name := strings.Trim(srt, "|")
	for i := 0; i < st.NumFields(); i++ {
		arr := vc.fieldArr(vc.structName(t, st), st.Field(i))
		h.set(arr, fmt.Sprintf("(store %s %s (|%s.%s| %s))", h.get(arr), ref, name, st.Field(i).Name(), val))
	}
}

// ---------- execution ---------------------------------------------------------

func (ex *Exec) val(v ssa.Value) *Val {
	vc := ex.vc
	if r, ok := ex.vals[v]; ok {
		return r
	}
	switch c := v.(type) {
	case *ssa.Const:
		return &Val{T: ex.constTerm(c)}
	case *ssa.Global:
		return &Val{T: vc.globalRef(c)}
	case *ssa.Function:
		n := "|fn." + sanitize(c.String()) + "|"
		vc.decl(n, fmt.Sprintf("(declare-const %s Int)", n))
		return &Val{T: n, Fn: c}
	case *ssa.Builtin:
		return &Val{T: "0"}
	}
	// value from an unreachable / not yet executed block (e.g. via back edge phi)
	s := vc.sortOf(v.Type())
	if s == "TUPLE" {
		tup := v.Type().(*types.Tuple)
		r := &Val{}
		for i := 0; i < tup.Len(); i++ {
			r.Tup = append(r.Tup, &Val{T: vc.fresh("undef", vc.sortOf(tup.At(i).Type()))})
		}
		return r
	}
	return &Val{T: vc.fresh("undef."+v.Name(), s)}
}

func (ex *Exec) constTerm(c *ssa.Const) string {
	vc := ex.vc
	t := c.Type()
	if c.Value == nil {
		return vc.zero(t)
	}
	if bits, _, ok := intInfo(t); ok {
		if i, exact := constant.Int64Val(constant.ToInt(c.Value)); exact {
			return bvLit(uint64(i), bits)
		}
		u, _ := constant.Uint64Val(constant.ToInt(c.Value))
		return bvLit(u, bits)
	}
	switch {
	case isFloat(t):
		f, _ := constant.Float64Val(c.Value)
		if vc.sortOf(t) == sF32 {
			return fmt.Sprintf("((_ to_fp 8 24) RNE %s)", f64Lit(f))
		}
		return f64Lit(f)
	case isString(t):
		return vc.strLit(constant.StringVal(c.Value))
	case vc.sortOf(t) == sBool:
		if constant.BoolVal(c.Value) {
			return "true"
		}
		return "false"
	}
	return vc.fresh("const", vc.sortOf(t))
}

func (ex *Exec) to64(v ssa.Value) string {
	t := ex.val(v).T
	bits, signed, ok := intInfo(v.Type())
	if !ok || bits == 64 {
		return t
	}
	if signed {
		return fmt.Sprintf("((_ sign_extend %d) %s)", 64-bits, t)
	}
	return fmt.Sprintf("((_ zero_extend %d) %s)", 64-bits, t)
}

func (ex *Exec) newRef(prefix string) string {
	h := ex.cur.heap
	r := ex.vc.define(prefix, "Int", h.alloc)
	h.alloc = ex.vc.define("alloc", "Int", fmt.Sprintf("(+ %s 1)", r))
	return r
}

// panicOblig registers a panic obligation (if the function is nopanic for the
// property) and in any case assumes the condition afterwards.
func (ex *Exec) panicOblig(kind string, pos token.Pos, want func(ast.Node) bool, cond string) {
	if ex.nopanic {
		sn := ex.vc.snippetAt(pos, want)
		ex.oblig("panic."+kind, "", sn, pos, fmt.Sprintf("(=> %s %s)", ex.cur.guard, cond), []string{ex.prop})
	}
	ex.vc.assume(fmt.Sprintf("(=> %s %s)", ex.cur.guard, cond))
}

func hasPropStr(a, b string) bool { return a == b }

func isSelectorOrStmt(n ast.Node) bool {
	if _, ok := n.(*ast.SelectorExpr); ok {
		return true
	}
	return isStmt(n)
}

// mayBeNilResult: v is (a copy of) something a callee or a map handed back: the usual
// carriers of "not found" nils. Parameters, fields, fresh allocations and the pointer a
// type switch finds inside an interface are not (an input invariant, or evident).
func mayBeNilResult(v ssa.Value, depth int) bool {
	if depth > 3 {
		return false
	}
	switch x := v.(type) {
	case *ssa.Call:
		if _, isB := x.Call.Value.(*ssa.Builtin); isB {
			return false
		}
		return true
	case *ssa.Lookup:
		return true
	case *ssa.Extract:
		switch x.Tuple.(type) {
		case *ssa.Call:
			return true
		case *ssa.Lookup:
			return x.Index == 0
		}
		return false
	case *ssa.ChangeType:
		return mayBeNilResult(x.X, depth+1)
	case *ssa.Phi:
		for _, e := range x.Edges {
			if c, isC := e.(*ssa.Const); isC && c.Value == nil {
				return true
			}
			if mayBeNilResult(e, depth+1) {
				return true
			}
		}
	}
	return false
}

func isIndexExpr(n ast.Node) bool { _, ok := n.(*ast.IndexExpr); return ok }
func isSliceExpr(n ast.Node) bool { _, ok := n.(*ast.SliceExpr); return ok }
func isAssertExpr(n ast.Node) bool {
	switch n.(type) {
	case *ast.TypeAssertExpr, *ast.CaseClause:
		return true
	}
	return false
}
func isBinExpr(n ast.Node) bool {
	switch n.(type) {
	case *ast.BinaryExpr, *ast.AssignStmt:
		return true
	}
	return false
}
func isCallExpr(n ast.Node) bool { _, ok := n.(*ast.CallExpr); return ok }
func isStmt(n ast.Node) bool     { _, ok := n.(ast.Stmt); return ok }

func (ex *Exec) place(v ssa.Value) *Place {
	r := ex.val(v)
	if r.P != nil {
		return r.P
	}
	// plain Ref to a non-struct cell
	et := v.Type().Underlying().(*types.Pointer).Elem()
	return &Place{kind: 2, base: r.T, arr: ex.vc.cellArr(et), typ: et, rootT: et}
}

// roCellValue: an address-taken local that is stored exactly once (in the entry
// block) and otherwise only read, also by the closures capturing it, behaves
// like a register: its loads return the stored value whatever calls happen.
func (ex *Exec) computeROCells() {
	ex.roCells = map[*ssa.Alloc]ssa.Value{}
	var readOnlyFree func(fv *ssa.FreeVar, depth int) bool
	readOnlyFree = func(fv *ssa.FreeVar, depth int) bool {
		if depth > 4 || fv.Referrers() == nil {
			return false
		}
		for _, r := range *fv.Referrers() {
			switch x := r.(type) {
			case *ssa.DebugRef:
			case *ssa.UnOp:
				if x.Op != token.MUL {
					return false
				}
			case *ssa.MakeClosure:
				g := x.Fn.(*ssa.Function)
				for k, b := range x.Bindings {
					if b == fv && !readOnlyFree(g.FreeVars[k], depth+1) {
						return false
					}
				}
			default:
				return false
			}
		}
		return true
	}
	for _, b := range ex.fn.Blocks {
		for _, in := range b.Instrs {
			a, ok := in.(*ssa.Alloc)
			if !ok || a.Referrers() == nil {
				continue
			}
			var stored ssa.Value
			nst := 0
			ok2 := true
			for _, r := range *a.Referrers() {
				switch x := r.(type) {
				case *ssa.DebugRef:
				case *ssa.Store:
					if x.Addr != a || x.Block() != ex.fn.Blocks[0] {
						ok2 = false
					}
					stored = x.Val
					nst++
				case *ssa.UnOp:
					if x.Op != token.MUL {
						ok2 = false
					}
				case *ssa.MakeClosure:
					g := x.Fn.(*ssa.Function)
					for k, bd := range x.Bindings {
						if bd == a && !readOnlyFree(g.FreeVars[k], 0) {
							ok2 = false
						}
					}
				default:
					ok2 = false
				}
			}
			if ok2 && nst == 1 && a.Block() == ex.fn.Blocks[0] {
				// loads must come after the store: require the store to precede every load in block 0
				ex.roCells[a] = stored
			}
		}
	}
}

// computePrivAllocs: allocs whose address is only ever used to access them
// (field/element addressing, loads, stores into them) are private storage.
func (ex *Exec) computePrivAllocs() {
	ex.privAllocs = map[*ssa.Alloc]bool{}
	var onlyAccess func(v ssa.Value, depth int) bool
	onlyAccess = func(v ssa.Value, depth int) bool {
		refs := v.Referrers()
		if refs == nil || depth > 4 {
			return false
		}
		for _, r := range *refs {
			switch x := r.(type) {
			case *ssa.DebugRef:
			case *ssa.Store:
				if x.Addr != v {
					return false
				}
			case *ssa.UnOp:
				if x.Op != token.MUL {
					return false
				}
			case *ssa.FieldAddr:
				if x.X != v || !onlyAccess(x, depth+1) {
					return false
				}
			default:
				return false
			}
		}
		return true
	}
	for _, b := range ex.fn.Blocks {
		for _, in := range b.Instrs {
			if a, ok := in.(*ssa.Alloc); ok {
				if _, isArr := a.Type().(*types.Pointer).Elem().Underlying().(*types.Array); isArr {
					continue
				}
				if onlyAccess(a, 0) {
					ex.privAllocs[a] = true
				}
			}
		}
	}
}

// withPriv runs f with heap-array names redirected to the private arrays of alloc base (if it is private).
func (ex *Exec) withPriv(base ssa.Value, f func()) {
	if a, ok := base.(*ssa.Alloc); ok && ex.privAllocs[a] {
		old := ex.vc.curPriv
		ex.vc.curPriv = a.Name()
		defer func() { ex.vc.curPriv = old }()
	}
	f()
}

func (ex *Exec) load(addr ssa.Value) (res string) {
	if a, ok := addr.(*ssa.Alloc); ok && ex.privAllocs[a] && ex.vc.curPriv == "" {
		ex.withPriv(a, func() { res = ex.load(addr) })
		return res
	}
	vc := ex.vc
	h := ex.cur.heap
	if a, ok := addr.(*ssa.Alloc); ok {
		if sv, ro := ex.roCells[a]; ro {
			if v := ex.val(sv); v.P == nil && len(v.Tup) == 0 {
				if _, seen := ex.roStored[a]; seen {
					return v.T
				}
			}
		}
	}
	if g, ok := addr.(*ssa.Global); ok {
		return vc.loadGlobal(h, g)
	}
	r := ex.val(addr)
	et := addr.Type().Underlying().(*types.Pointer).Elem()
	if r.P != nil {
		return vc.loadPlace(h, r.P)
	}
	if _, isSt := et.Underlying().(*types.Struct); isSt {
		return vc.loadStruct(h, r.T, et)
	}
	if at, isArr := et.Underlying().(*types.Array); isArr {
		return fmt.Sprintf("(select %s %s)", h.get(vc.elemsArr(at.Elem())), r.T)
	}
	return fmt.Sprintf("(select %s %s)", h.get(vc.cellArr(et)), r.T)
}

func (ex *Exec) store(addr ssa.Value, val string) {
	if a, ok := addr.(*ssa.Alloc); ok && ex.privAllocs[a] && ex.vc.curPriv == "" {
		ex.withPriv(a, func() { ex.store(addr, val) })
		return
	}
	vc := ex.vc
	h := ex.cur.heap
	r := ex.val(addr)
	et := addr.Type().Underlying().(*types.Pointer).Elem()
	if r.P != nil {
		vc.storePlace(h, r.P, val)
		return
	}
	if _, isSt := et.Underlying().(*types.Struct); isSt {
		vc.storeStruct(h, r.T, val, et)
		return
	}
	if at, isArr := et.Underlying().(*types.Array); isArr {
		a := vc.elemsArr(at.Elem())
		h.set(a, fmt.Sprintf("(store %s %s %s)", h.get(a), r.T, val))
		return
	}
	a := vc.cellArr(et)
	h.set(a, fmt.Sprintf("(store %s %s %s)", h.get(a), r.T, val))
}

func (ex *Exec) setVal(v ssa.Value, term string) {
	s := ex.vc.sortOf(v.Type())
	n := term
	if len(term) > 40 || strings.Contains(term, " ") {
		n = fmt.Sprintf("|%s|", v.Name())
		if ex.pass == 1 {
			n = fmt.Sprintf("|p1.%s|", v.Name())
		}
		ex.vc.emit(fmt.Sprintf("(define-fun %s () %s %s)", n, s, term))
	}
	ex.vals[v] = &Val{T: n}
}

func (ex *Exec) freshVal(v ssa.Value, why string) {
	vc := ex.vc
	if tup, ok := v.Type().(*types.Tuple); ok {
		r := &Val{}
		for i := 0; i < tup.Len(); i++ {
			t := vc.fresh(v.Name()+"."+why, vc.sortOf(tup.At(i).Type()))
			vc.wf(ex.cur.guard, t, tup.At(i).Type(), ex.cur.heap.alloc)
			r.Tup = append(r.Tup, &Val{T: t})
			if ex.cur != nil {
				defer ex.assumeTypeInv(t, tup.At(i).Type())
			}
		}
		ex.vals[v] = r
		return
	}
	t := vc.fresh(v.Name()+"."+why, vc.sortOf(v.Type()))
	vc.wf(ex.cur.guard, t, v.Type(), ex.cur.heap.alloc)
	ex.vals[v] = &Val{T: t}
	if why != "loop" {
		ex.assumeTypeInv(t, v.Type())
	}
}

func (ex *Exec) instr(in ssa.Instruction) {
	vc := ex.vc
	h := ex.cur.heap
	g := ex.cur.guard
	if ge := vc.ctx.guardExpr; ge != "" && ex.pass == 2 {
		// "effects guarded": materialising a world-reaching function value is as
		// good as calling it (it may be installed in a table): must be dead under the guard
		var callee ssa.Value
		if c, ok := in.(*ssa.Call); ok {
			callee = c.Call.Value
		}
		for _, op := range in.Operands(nil) {
			if op == nil || *op == nil || *op == callee {
				continue
			}
			if f, ok := (*op).(*ssa.Function); ok && (deniedPrimitive(f) || vc.ctx.worldReach[f]) {
				if t, err := vc.entryEnv.Bool(ge); err == nil {
					ex.oblig("effect.guard", "", "value "+f.Name(), in.Pos(), fmt.Sprintf("(=> %s (not %s))", g, t), []string{ex.prop})
				}
			}
		}
	}
	switch i := in.(type) {
	case *ssa.DebugRef:
	case *ssa.Alloc:
		if ex.privAllocs[i] && vc.curPriv == "" {
			ex.withPriv(i, func() { ex.instr(in) })
			return
		}
		et := i.Type().(*types.Pointer).Elem()
		r := ex.newRef("new." + i.Name())
		// Fresh memory is zero: instead of writing zeros (which would put a store
		// between every later read and the entry heap) the never-before-visible
		// cells at the fresh reference are assumed to hold the zero value.
		switch u := et.Underlying().(type) {
		case *types.Array:
			a := vc.elemsArr(u.Elem())
			vc.assume(fmt.Sprintf("(= (select %s %s) %s)", h.get(a), r, vc.zero(et)))
		case *types.Struct:
			for k := 0; k < u.NumFields(); k++ {
				a := vc.fieldArr(vc.structName(et, u), u.Field(k))
				vc.assume(fmt.Sprintf("(= (select %s %s) %s)", h.get(a), r, vc.zero(u.Field(k).Type())))
			}
		default:
			a := vc.cellArr(et)
			vc.assume(fmt.Sprintf("(= (select %s %s) %s)", h.get(a), r, vc.zero(et)))
		}
		ex.vals[i] = &Val{T: r}
	case *ssa.FieldAddr:
		x := ex.val(i.X)
		pt := i.X.Type().Underlying().(*types.Pointer).Elem()
		st := pt.Underlying().(*types.Struct)
		f := st.Field(i.Field)
		if x.P != nil {
			np := *x.P
			np.sub = append(append([]subSel{}, x.P.sub...), subSel{st: st, stSort: vc.structSort(pt, st), field: i.Field})
			np.typ = f.Type()
			ex.vals[i] = &Val{P: &np}
		} else {
			if ex.nonil || (ex.nilsweep && mayBeNilResult(i.X, 0)) {
				ex.panicOblig("nil", i.Pos(), isSelectorOrStmt, fmt.Sprintf("(not (= %s 0))", x.T))
			} else {
				// A-NONNIL: execution continues past a field access only if the pointer was non-nil
				vc.assume(fmt.Sprintf("(=> %s (not (= %s 0)))", g, x.T))
			}
			var arrName string
			ex.withPriv(i.X, func() { arrName = vc.fieldArr(vc.structName(pt, st), f) })
			ex.vals[i] = &Val{P: &Place{kind: 0, base: x.T, arr: arrName, typ: f.Type(), rootT: f.Type()}}
		}
	case *ssa.Field:
		x := ex.val(i.X)
		st := i.X.Type().Underlying().(*types.Struct)
		srt := vc.structSort(i.X.Type(), st)
		ex.setVal(i, fmt.Sprintf("(|%s.%s| %s)", strings.Trim(srt, "|"), st.Field(i.Field).Name(), x.T))
	case *ssa.IndexAddr:
		x := ex.val(i.X)
		idx := ex.to64(i.Index)
		switch u := i.X.Type().Underlying().(type) {
		case *types.Slice:
			ex.panicOblig("index", i.Pos(), isIndexExpr, fmt.Sprintf("(and (bvsle (_ bv0 64) %s) (bvslt %s (slen %s)))", idx, idx, x.T))
			ex.vals[i] = &Val{P: &Place{kind: 1, base: "(sarr " + x.T + ")", arr: vc.elemsArr(u.Elem()), idx: vc.define("ix", sBV64, fmt.Sprintf("(bvadd (soff %s) %s)", x.T, idx)), typ: u.Elem(), rootT: u.Elem()}}
		case *types.Pointer:
			at := u.Elem().Underlying().(*types.Array)
			trivial := false
			if c, isC := i.Index.(*ssa.Const); isC && c.Value != nil {
				if n, ok := constant.Int64Val(constant.ToInt(c.Value)); ok && n >= 0 && n < at.Len() {
					trivial = true
				}
			}
			if !trivial {
				ex.panicOblig("index", i.Pos(), isIndexExpr, fmt.Sprintf("(and (bvsle (_ bv0 64) %s) (bvslt %s %s))", idx, idx, bvLit(uint64(at.Len()), 64)))
			}
			if x.P != nil {
				np := *x.P
				np.sub = append(append([]subSel{}, x.P.sub...), subSel{isIdx: true, idx: idx})
				np.typ = at.Elem()
				ex.vals[i] = &Val{P: &np}
			} else {
				ex.vals[i] = &Val{P: &Place{kind: 1, base: x.T, arr: vc.elemsArr(at.Elem()), idx: idx, typ: at.Elem(), rootT: at.Elem()}}
			}
		}
	case *ssa.Index:
		x := ex.val(i.X)
		idx := ex.to64(i.Index)
		switch u := i.X.Type().Underlying().(type) {
		case *types.Array:
			ex.panicOblig("index", i.Pos(), isIndexExpr, fmt.Sprintf("(and (bvsle (_ bv0 64) %s) (bvslt %s %s))", idx, idx, bvLit(uint64(u.Len()), 64)))
			ex.setVal(i, fmt.Sprintf("(select %s %s)", x.T, idx))
		default:
			ex.panicOblig("index", i.Pos(), isIndexExpr, fmt.Sprintf("(and (bvsle (_ bv0 64) %s) (bvslt %s (strlen %s)))", idx, idx, x.T))
			ex.setVal(i, fmt.Sprintf("(str_at %s %s)", x.T, idx))
		}
	case *ssa.Lookup:
		x := ex.val(i.X)
		if mt, ok := i.X.Type().Underlying().(*types.Map); ok {
			k := ex.val(i.Index).T
			dom, val, _ := vc.mapArrs(mt)
			okT := fmt.Sprintf("(and (not (= %s 0)) (select (select %s %s) %s))", x.T, h.get(dom), x.T, k)
			vT := fmt.Sprintf("(ite %s (select (select %s %s) %s) %s)", okT, h.get(val), x.T, k, vc.zero(mt.Elem()))
			vn := vc.define(i.Name()+".v", vc.sortOf(mt.Elem()), vT)
			vc.wf(g, vn, mt.Elem(), h.alloc)
			if i.CommaOk {
				ex.vals[i] = &Val{Tup: []*Val{{T: vn}, {T: vc.define(i.Name()+".ok", sBool, okT)}}}
			} else {
				ex.vals[i] = &Val{T: vn}
			}
		} else {
			idx := ex.to64(i.Index)
			ex.panicOblig("index", i.Pos(), isIndexExpr, fmt.Sprintf("(and (bvsle (_ bv0 64) %s) (bvslt %s (strlen %s)))", idx, idx, x.T))
			ex.setVal(i, fmt.Sprintf("(str_at %s %s)", x.T, idx))
		}
	case *ssa.UnOp:
		ex.unop(i)
	case *ssa.BinOp:
		ex.binop(i)
	case *ssa.Convert:
		x := ex.val(i.X)
		ft, tt := i.X.Type(), i.Type()
		if _, isSl := tt.Underlying().(*types.Slice); isSl && isString(ft) {
			// []byte(s) / []rune(s): fresh backing array
			r := ex.newRef("conv." + i.Name())
			ln := "(strlen " + x.T + ")"
			if el := tt.Underlying().(*types.Slice).Elem(); vc.sortOf(el) != bvSort(8) {
				// the runes of a string are a function of the string (uninterpreted:
				// UTF-8 decoding is not modelled); contracts name them with runeAt(s, i)
				ln = vc.uf("str_runecount", []string{sStr}, sBV64, x.T)
				vc.assume(fmt.Sprintf("(and (bvsle (_ bv0 64) %s) (bvsle %s (strlen %s)))", ln, ln, x.T))
				if vc.sortOf(el) == bvSort(32) {
					runes := vc.uf("str_runes", []string{sStr}, "(Array (_ BitVec 64) (_ BitVec 32))", x.T)
					vc.assume(fmt.Sprintf("(= (select %s %s) %s)", h.get(vc.elemsArr(el)), r, runes))
				}
			}
			ex.setVal(i, fmt.Sprintf("(mk_slice %s (_ bv0 64) %s %s)", r, ln, ln))
			return
		}
		if _, isSl := ft.Underlying().(*types.Slice); isSl && isString(tt) {
			el := ft.Underlying().(*types.Slice).Elem()
			s := vc.uf("str_of_slice."+sortKey(vc.sortOf(el)), []string{"(Array (_ BitVec 64) " + vc.sortOf(el) + ")", sBV64, sBV64}, sStr,
				fmt.Sprintf("(select %s (sarr %s))", h.get(vc.elemsArr(el)), x.T), "(soff "+x.T+")", "(slen "+x.T+")")
			if vc.sortOf(el) == bvSort(8) {
				vc.assume(fmt.Sprintf("(=> %s (= (strlen %s) (slen %s)))", g, s, x.T))
			}
			ex.setVal(i, s)
			vc.wf(g, ex.vals[i].T, tt, h.alloc)
			return
		}
		ex.setVal(i, vc.convert(x.T, ft, tt))
		if isString(tt) {
			vc.wf(g, ex.vals[i].T, tt, h.alloc)
		}
	case *ssa.ChangeType:
		x := ex.val(i.X)
		if vc.sortOf(i.X.Type()) == vc.sortOf(i.Type()) {
			ex.vals[i] = &Val{T: x.T, Fn: x.Fn, Binds: x.Binds}
		} else {
			ex.setVal(i, vc.convert(x.T, i.X.Type(), i.Type()))
		}
	case *ssa.ChangeInterface:
		ex.vals[i] = &Val{T: ex.val(i.X).T}
	case *ssa.MakeInterface:
		ex.setVal(i, vc.makeIface(ex.val(i.X).T, i.X.Type()))
	case *ssa.TypeAssert:
		x := ex.val(i.X)
		var ok, v string
		if isIface(i.AssertedType) {
			if it := i.AssertedType.Underlying().(*types.Interface); it.NumMethods() == 0 {
				ok = fmt.Sprintf("(not (= (itag %s) 0))", x.T)
			} else {
				ok = fmt.Sprintf("(%s (itag %s))", vc.implPred(i.AssertedType), x.T)
			}
			v = x.T
		} else {
			ok = fmt.Sprintf("(= (itag %s) %d)", x.T, vc.ctx.tagOf(i.AssertedType))
			v = vc.ifacePayload(x.T, i.AssertedType)
		}
		okN := vc.define(i.Name()+".ok", sBool, ok)
		if _, isPtr := i.AssertedType.Underlying().(*types.Pointer); isPtr && !isIface(i.AssertedType) {
			// A-TYPEDNIL: an interface value whose dynamic type is a pointer type holds a non-nil pointer
			vc.assume(fmt.Sprintf("(=> %s (=> %s (not (= %s 0))))", g, okN, v))
		}
		if i.CommaOk {
			vN := vc.define(i.Name()+".v", vc.sortOf(i.AssertedType), fmt.Sprintf("(ite %s %s %s)", okN, v, vc.zero(i.AssertedType)))
			ex.vals[i] = &Val{Tup: []*Val{{T: vN}, {T: okN}}}
		} else {
			ex.panicOblig("assert", i.Pos(), isAssertExpr, okN)
			ex.setVal(i, v)
		}
	case *ssa.Extract:
		t := ex.val(i.Tuple)
		if i.Index < len(t.Tup) {
			ex.vals[i] = t.Tup[i.Index]
		} else {
			ex.freshVal(i, "extract")
		}
	case *ssa.Phi:
		// handled at block entry
	case *ssa.Call:
		ex.call(i, i.Common(), i)
	case *ssa.MakeSlice:
		r := ex.newRef("mkslice." + i.Name())
		ln, cp := ex.to64(i.Len), ex.to64(i.Cap)
		et := i.Type().Underlying().(*types.Slice).Elem()
		ex.panicOblig("make", i.Pos(), isCallExpr, fmt.Sprintf("(and (bvsle (_ bv0 64) %s) (bvsle %s %s))", ln, ln, cp))
		a := vc.elemsArr(et)
		vc.assume(fmt.Sprintf("(= (select %s %s) ((as const (Array (_ BitVec 64) %s)) %s))", h.get(a), r, vc.sortOf(et), vc.zero(et)))
		ex.setVal(i, fmt.Sprintf("(mk_slice %s (_ bv0 64) %s %s)", r, ln, cp))
	case *ssa.MakeMap:
		r := ex.newRef("mkmap." + i.Name())
		mt := i.Type().Underlying().(*types.Map)
		dom, _, ln := vc.mapArrs(mt)
		vc.assume(fmt.Sprintf("(= (select %s %s) ((as const (Array %s Bool)) false))", h.get(dom), r, vc.sortOf(mt.Key())))
		vc.assume(fmt.Sprintf("(= (select %s %s) (_ bv0 64))", h.get(ln), r))
		ex.vals[i] = &Val{T: r}
	case *ssa.MakeChan:
		ex.vals[i] = &Val{T: ex.newRef("mkchan")}
	case *ssa.MakeClosure:
		if ge := vc.ctx.guardExpr; ge != "" && ex.pass == 2 {
			if fn, ok := i.Fn.(*ssa.Function); ok && vc.ctx.worldReach[fn] {
				if t, err := vc.entryEnv.Bool(ge); err == nil {
					ex.oblig("effect.guard", "", "closure "+fn.Name(), i.Pos(), fmt.Sprintf("(=> %s (not %s))", g, t), []string{ex.prop})
				}
			}
		}
		r := ex.newRef("clo." + i.Name())
		v := &Val{T: r, Fn: i.Fn.(*ssa.Function)}
		for _, b := range i.Bindings {
			v.Binds = append(v.Binds, ex.val(b))
		}
		ex.vals[i] = v
	case *ssa.Slice:
		ex.slice(i)
	case *ssa.Range:
		ex.vals[i] = &Val{T: ex.val(i.X).T}
	case *ssa.Next:
		ok := vc.fresh(i.Name()+".ok", sBool)
		rng := i.Iter.(*ssa.Range)
		x := ex.val(rng.X)
		if i.IsString {
			k := vc.fresh(i.Name()+".k", sBV64)
			vc.assume(fmt.Sprintf("(=> (and %s %s) (and (bvsle (_ bv0 64) %s) (bvslt %s (strlen %s))))", g, ok, k, k, x.T))
			ex.vals[i] = &Val{Tup: []*Val{{T: ok}, {T: k}, {T: vc.fresh(i.Name()+".r", bvSort(32))}}}
		} else {
			mt := rng.X.Type().Underlying().(*types.Map)
			dom, val, _ := vc.mapArrs(mt)
			k := vc.fresh(i.Name()+".k", vc.sortOf(mt.Key()))
			vc.assume(fmt.Sprintf("(=> (and %s %s) (select (select %s %s) %s))", g, ok, h.get(dom), x.T, k))
			vT := vc.define(i.Name()+".v", vc.sortOf(mt.Elem()), fmt.Sprintf("(select (select %s %s) %s)", h.get(val), x.T, k))
			vc.wf(g, k, mt.Key(), h.alloc)
			vc.wf(g, vT, mt.Elem(), h.alloc)
			ex.vals[i] = &Val{Tup: []*Val{{T: ok}, {T: k}, {T: vT}}}
		}
	case *ssa.Store:
		if a, ok := i.Addr.(*ssa.Alloc); ok {
			if _, ro := ex.roCells[a]; ro {
				ex.roStored[a] = true
			}
		}
		if fa, ok := i.Addr.(*ssa.FieldAddr); ok {
			// contracts can attach assertions to a field store as to a call:
			//   assert label @before call store_T_f[*]: expr   (arg0 = the object, arg1 = the value stored)
			if T, f, ok := fieldOfLoad(fa); ok {
				base := ex.val(fa.X)
				if base.P == nil && base.T != "" {
					args := []TV{{T: base.T, Ty: fa.X.Type()}, {T: ex.val(i.Val).T, Ty: i.Val.Type()}}
					ex.callSiteClauses("store_"+T+"_"+f, -1, "before", args, nil, i.Pos(), i)
					// and, for "any field of T":  @before call store_T[*]
					ex.callSiteClauses("store_"+T, -1, "before", args, nil, i.Pos(), i)
				}
			}
		}
		if ia, ok := i.Addr.(*ssa.IndexAddr); ok {
			// ... and to an element store:  assert label @before call storeelem[*]: expr
			// (arg0 = the slice or array written into, arg1 = the index, arg2 = the value stored)
			if _, isSl := ia.X.Type().Underlying().(*types.Slice); isSl {
				base := ex.val(ia.X)
				if base.P == nil && base.T != "" {
					args := []TV{{T: base.T, Ty: ia.X.Type()}, {T: ex.to64(ia.Index), Ty: types.Typ[types.Int]}, {T: ex.val(i.Val).T, Ty: i.Val.Type()}}
					ex.callSiteClauses("storeelem", -1, "before", args, nil, i.Pos(), i)
				}
			}
		}
		ex.store(i.Addr, ex.val(i.Val).T)
		// preserving writers of a type invariant re-establish it right after each write
		if fa, ok := i.Addr.(*ssa.FieldAddr); ok && ex.pass == 2 {
			if T, f, ok := fieldOfLoad(fa); ok {
				for _, ti := range vc.ctx.cf.TypeInvs {
					if ti.Stable || ti.WritersOnly || ti.Type != T {
						continue
					}
					isField, isPres := false, false
					for _, tf := range ti.Fields {
						if tf == f {
							isField = true
						}
					}
					for _, p := range ti.Preserving {
						if p == vc.fnName() {
							isPres = true
						}
					}
					if !isField || !isPres {
						continue
					}
					base := ex.val(fa.X)
					env := &SpecEnv{vc: vc, vars: map[string]TV{"self": {T: base.T, Ty: fa.X.Type()}}, params: ex.params, heap: ex.cur.heap, old: ex.entry}
					b, err := env.Bool(ti.Expr)
					if err != nil {
						continue
					}
					sn := vc.snippetAt(i.Pos(), isStmt)
					if hasPropStr(ti.Prop, ex.prop) {
						ex.oblig("typeinv.preserve", ti.Type, sn, i.Pos(), fmt.Sprintf("(=> %s %s)", ex.cur.guard, b), []string{ex.prop})
					}
					vc.assume(fmt.Sprintf("(=> %s %s)", ex.cur.guard, b))
				}
			}
		}
	case *ssa.MapUpdate:
		{
			// contracts can attach assertions to a map store as to a call:
			//   assert label @before call mapstore[k]: expr     (arg0 = map, arg1 = key, arg2 = value)
			args := []TV{{T: ex.val(i.Map).T, Ty: i.Map.Type()}, {T: ex.val(i.Key).T, Ty: i.Key.Type()}, {T: ex.val(i.Value).T, Ty: i.Value.Type()}}
			k := ex.mapStoreOrd[i]
			ex.callSiteClauses("mapstore", k, "before", args, nil, i.Pos(), i)
		}
		m := ex.val(i.Map)
		mt := i.Map.Type().Underlying().(*types.Map)
		dom, val, ln := vc.mapArrs(mt)
		// assignment to an entry of a nil map panics
		ex.panicOblig("nilmap", i.Pos(), isStmt, fmt.Sprintf("(not (= %s 0))", m.T))
		k, v := ex.val(i.Key).T, ex.val(i.Value).T
		d0 := fmt.Sprintf("(select %s %s)", h.get(dom), m.T)
		h.set(ln, fmt.Sprintf("(store %s %s (ite (select %s %s) (select %s %s) (bvadd (select %s %s) (_ bv1 64))))", h.get(ln), m.T, d0, k, h.get(ln), m.T, h.get(ln), m.T))
		h.set(val, fmt.Sprintf("(store %s %s (store (select %s %s) %s %s))", h.get(val), m.T, h.get(val), m.T, k, v))
		h.set(dom, fmt.Sprintf("(store %s %s (store %s %s true))", h.get(dom), m.T, d0, k))
	case *ssa.Defer:
		ex.hasDefer = true
		// remember the deferred call with the argument values it was registered with
		dc := deferredCall{instr: i, guard: g}
		ex.deferred = append(ex.deferred, dc)
		if ex.deferGuard == nil {
			ex.deferGuard = map[*ssa.Defer]string{}
		}
		ex.deferGuard[i] = g
	case *ssa.RunDefers:
		ex.runDefers(i)
	case *ssa.Go:
		ex.noteUnsupported("go")
	case *ssa.Send:
		ex.noteUnsupported("send")
	case *ssa.Select:
		ex.noteUnsupported("select")
		ex.havocAll("select")
		ex.freshVal(i, "select")
	case *ssa.If, *ssa.Jump, *ssa.Return, *ssa.Panic:
		// terminators handled by the block driver
	default:
		if v, ok := in.(ssa.Value); ok {
			ex.noteUnsupported(fmt.Sprintf("%T", in))
			ex.freshVal(v, "unsupported")
		} else {
			ex.noteUnsupported(fmt.Sprintf("%T", in))
		}
	}
}

type deferredCall struct {
	instr *ssa.Defer
	guard string
}

// runDefers models the function's deferred calls at an exit.  A deferred call of
// a function that has a contract is applied as an ordinary call, conditionally on
// the guard of the block that registered it (it ran on this path iff that block
// was executed); deferred closures and contract-less callees havoc what they may
// write (whole heap for closures).  Defer statements inside loops are outside the subset.
func (ex *Exec) runDefers(rd *ssa.RunDefers) {
	var ds []*ssa.Defer
	for _, b := range ex.fn.Blocks {
		for _, in := range b.Instrs {
			if d, ok := in.(*ssa.Defer); ok {
				ds = append(ds, d)
			}
		}
	}
	if len(ds) == 0 {
		return
	}
	// reverse registration order (blocks are in source order for structured code)
	for k := len(ds) - 1; k >= 0; k-- {
		d := ds[k]
		gD, seen := ex.deferGuard[d]
		if !seen {
			continue // registered on no path that reaches this exit (not yet executed in RPO)
		}
		if len(ex.inLoops[d.Block()]) > 0 {
			ex.noteUnsupported("defer inside a loop")
			ex.havocAll("RunDefers(loop)")
			return
		}
		cal := d.Call.StaticCallee()
		var fc *FuncContract
		if cal != nil {
			fc = ex.vc.ctx.cf.Funcs[cal.RelString(ex.vc.ctx.tpkg)]
		}
		if _, isClo := d.Call.Value.(*ssa.MakeClosure); isClo || cal == nil || d.Call.IsInvoke() {
			ex.noteUnsupported("deferred closure")
			ex.havocAll("RunDefers(closure)")
			continue
		}
		before := ex.cur.heap
		saveGuard := ex.cur.guard
		// run the call under the registering block's guard
		ex.cur = &blockState{heap: before.clone(), guard: fmt.Sprintf("(and %s %s)", saveGuard, gD), ghosts: ex.cur.ghosts}
		if fc != nil {
			var names []string
			for _, p := range cal.Params {
				names = append(names, p.Name())
			}
			ex.applyContract(nil, fc, cal.RelString(ex.vc.ctx.tpkg), names, ex.argTVs(&d.Call), cal.Signature, d)
		} else {
			ex.havocCallee("deferred "+cal.RelString(ex.vc.ctx.tpkg), cal)
		}
		after := ex.cur.heap
		merged := ex.vc.mergeHeaps([]*Heap{after, before}, []string{gD, "true"})
		ex.cur = &blockState{heap: merged, guard: saveGuard, ghosts: ex.cur.ghosts}
	}
}

func fnHasDefer(fn *ssa.Function) bool {
	for _, b := range fn.Blocks {
		for _, in := range b.Instrs {
			if _, ok := in.(*ssa.Defer); ok {
				return true
			}
		}
	}
	return false
}

func (ex *Exec) noteUnsupported(what string) {
	for _, u := range ex.vc.unsupported {
		if u == what {
			return
		}
	}
	ex.vc.unsupported = append(ex.vc.unsupported, what)
}

// havocCallee: an abstracted call to a known function changes only what that
// function (transitively) may write.
func (ex *Exec) havocCallee(why string, callee *ssa.Function) {
	if callee == nil || os.Getenv("ZVC_NOMODREF") != "" {
		ex.havocAll(why)
		return
	}
	m := ex.vc.ctx.modsets()
	set, all := m.closure(ex.vc.ctx, callee)
	if all {
		ex.havocAll(why)
		return
	}
	for n := range set {
		for _, l := range ex.inLoops[ex.curBlk] {
			l.writes[n] = true
		}
	}
	for _, l := range ex.inLoops[ex.curBlk] {
		if l.modCallees == nil {
			l.modCallees = map[*ssa.Function]bool{}
		}
		l.modCallees[callee] = true
	}
	ex.cur.heap = ex.cur.heap.havocSome(set)
	if ex.pass == 2 {
		ex.vc.abstracted[why+" (mod-set)"]++
		ex.partialHavocs = append(ex.partialHavocs, partialHavoc{ex.cur.guard, set})
	}
}

// havocTargets: a dynamic dispatch may run any of the targets.
func (ex *Exec) havocTargets(why string, targets []*ssa.Function) {
	if len(targets) == 0 || os.Getenv("ZVC_NOMODREF") != "" {
		ex.havocAll(why)
		return
	}
	m := ex.vc.ctx.modsets()
	union := map[string]bool{}
	for _, t := range targets {
		set, all := m.closure(ex.vc.ctx, t)
		if all {
			ex.havocAll(why)
			return
		}
		for n := range set {
			union[n] = true
		}
	}
	for n := range union {
		for _, l := range ex.inLoops[ex.curBlk] {
			l.writes[n] = true
		}
	}
	ex.cur.heap = ex.cur.heap.havocSome(union)
	if ex.pass == 2 {
		ex.vc.abstracted[why+" (mod-set of dispatch targets)"]++
	}
}

func (ex *Exec) havocAll(why string) {
	ex.cur.heap = ex.cur.heap.havocAll()
	for _, l := range ex.inLoops[ex.curBlk] {
		l.havocAll = true
	}
	if ex.pass == 2 {
		ex.vc.abstracted[why]++
		ex.abstractedGuards = append(ex.abstractedGuards, ex.cur.guard)
	}
}

func (ex *Exec) unop(i *ssa.UnOp) {
	vc := ex.vc
	switch i.Op {
	case token.MUL:
		t := ex.load(i.X)
		ex.setVal(i, t)
		vc.wf(ex.cur.guard, ex.vals[i].T, i.Type(), ex.cur.heap.alloc)
		ex.assumeTypeInv(ex.vals[i].T, i.Type())
	case token.SUB:
		x := ex.val(i.X).T
		if isFloat(i.Type()) {
			ex.setVal(i, "(fp.neg "+x+")")
		} else {
			ex.setVal(i, "(bvneg "+x+")")
		}
	case token.NOT:
		ex.setVal(i, "(not "+ex.val(i.X).T+")")
	case token.XOR:
		ex.setVal(i, "(bvnot "+ex.val(i.X).T+")")
	default:
		ex.noteUnsupported("unop " + i.Op.String())
		ex.freshVal(i, "unop")
	}
}

func (ex *Exec) binop(i *ssa.BinOp) {
	vc := ex.vc
	x, y := ex.val(i.X).T, ex.val(i.Y).T
	xt := i.X.Type()
	xs := vc.sortOf(xt)
	boolRes := func(t string) { ex.setVal(i, t) }
	switch i.Op {
	case token.EQL, token.NEQ:
		var eq string
		switch {
		case xs == sIface && vc.sortOf(i.Y.Type()) == sIface:
			eq = fmt.Sprintf("(iface_eq %s %s)", x, y)
		case xs == sIface:
			eq = fmt.Sprintf("(iface_eq %s %s)", x, vc.makeIface(y, i.Y.Type()))
		case vc.sortOf(i.Y.Type()) == sIface:
			eq = fmt.Sprintf("(iface_eq %s %s)", vc.makeIface(x, xt), y)
		case isFloat(xt):
			eq = fmt.Sprintf("(fp.eq %s %s)", x, y)
		case xs == sSlice:
			// only s == nil is legal
			eq = fmt.Sprintf("(= (sarr %s) (sarr %s))", x, y)
		default:
			eq = fmt.Sprintf("(= %s %s)", x, y)
		}
		if i.Op == token.NEQ {
			eq = "(not " + eq + ")"
		}
		boolRes(eq)
		return
	}
	if isFloat(xt) {
		ops := map[token.Token]string{token.LSS: "fp.lt", token.LEQ: "fp.leq", token.GTR: "fp.gt", token.GEQ: "fp.geq"}
		if o, ok := ops[i.Op]; ok {
			boolRes(fmt.Sprintf("(%s %s %s)", o, x, y))
			return
		}
		ar := map[token.Token]string{token.ADD: "fp.add", token.SUB: "fp.sub", token.MUL: "fp.mul", token.QUO: "fp.div"}
		if o, ok := ar[i.Op]; ok {
			ex.setVal(i, vc.fpArith(o, x, y, vc.sortOf(xt)))
			return
		}
	}
	if isString(xt) {
		switch i.Op {
		case token.ADD:
			ex.setVal(i, fmt.Sprintf("(str_concat %s %s)", x, y))
			vc.assume(fmt.Sprintf("(= (strlen %s) (bvadd (strlen %s) (strlen %s)))", ex.vals[i].T, x, y))
			return
		case token.LSS:
			boolRes(fmt.Sprintf("(str_lt %s %s)", x, y))
			return
		case token.GTR:
			boolRes(fmt.Sprintf("(str_lt %s %s)", y, x))
			return
		case token.LEQ:
			boolRes(fmt.Sprintf("(not (str_lt %s %s))", y, x))
			return
		case token.GEQ:
			boolRes(fmt.Sprintf("(not (str_lt %s %s))", x, y))
			return
		}
	}
	bits, signed, ok := intInfo(xt)
	if !ok {
		if xs == sBool {
			// && and || never reach BinOp; & | ^ on bools do not exist
		}
		ex.noteUnsupported("binop " + i.Op.String() + " on " + xt.String())
		ex.freshVal(i, "binop")
		return
	}
	pick := func(s, u string) string {
		if signed {
			return s
		}
		return u
	}
	cmp := map[token.Token]string{token.LSS: pick("bvslt", "bvult"), token.LEQ: pick("bvsle", "bvule"), token.GTR: pick("bvsgt", "bvugt"), token.GEQ: pick("bvsge", "bvuge")}
	if o, ok := cmp[i.Op]; ok {
		boolRes(fmt.Sprintf("(%s %s %s)", o, x, y))
		return
	}
	switch i.Op {
	case token.SHL, token.SHR:
		yb, _, _ := intInfo(i.Y.Type())
		yy := y
		if yb < bits {
			yy = fmt.Sprintf("((_ zero_extend %d) %s)", bits-yb, y)
		} else if yb > bits {
			// count >= width gives 0 / sign fill: saturate the count
			yy = fmt.Sprintf("(ite (bvuge %s %s) %s ((_ extract %d 0) %s))", y, bvLit(uint64(bits), yb), bvLit(uint64(bits), bits), bits-1, y)
		}
		op := "bvshl"
		if i.Op == token.SHR {
			op = pick("bvashr", "bvlshr")
		}
		ex.setVal(i, fmt.Sprintf("(%s %s %s)", op, x, yy))
		return
	case token.QUO, token.REM:
		ex.panicOblig("div", i.Pos(), isBinExpr, fmt.Sprintf("(not (= %s %s))", y, bvLit(0, bits)))
		op := pick("bvsdiv", "bvudiv")
		if i.Op == token.REM {
			op = pick("bvsrem", "bvurem")
		}
		ex.setVal(i, fmt.Sprintf("(%s %s %s)", op, x, y))
		return
	}
	ar := map[token.Token]string{token.ADD: "bvadd", token.SUB: "bvsub", token.MUL: "bvmul", token.AND: "bvand", token.OR: "bvor", token.XOR: "bvxor"}
	if o, ok := ar[i.Op]; ok {
		ex.setVal(i, fmt.Sprintf("(%s %s %s)", o, x, y))
		return
	}
	if i.Op == token.AND_NOT {
		ex.setVal(i, fmt.Sprintf("(bvand %s (bvnot %s))", x, y))
		return
	}
	ex.noteUnsupported("binop " + i.Op.String())
	ex.freshVal(i, "binop")
}

func (ex *Exec) slice(i *ssa.Slice) {
	vc := ex.vc
	x := ex.val(i.X)
	zero := "(_ bv0 64)"
	lo := zero
	if i.Low != nil {
		lo = ex.to64(i.Low)
	}
	switch u := i.X.Type().Underlying().(type) {
	case *types.Slice:
		hi := "(slen " + x.T + ")"
		if i.High != nil {
			hi = ex.to64(i.High)
		}
		mx := "(scap " + x.T + ")"
		if i.Max != nil {
			mx = ex.to64(i.Max)
		}
		ex.panicOblig("slice", i.Pos(), isSliceExpr, fmt.Sprintf("(and (bvsle (_ bv0 64) %s) (bvsle %s %s) (bvsle %s %s) (bvsle %s (scap %s)))", lo, lo, hi, hi, mx, mx, x.T))
		ex.setVal(i, fmt.Sprintf("(mk_slice (sarr %s) (bvadd (soff %s) %s) (bvsub %s %s) (bvsub %s %s))", x.T, x.T, lo, hi, lo, mx, lo))
	case *types.Basic:
		hi := "(strlen " + x.T + ")"
		if i.High != nil {
			hi = ex.to64(i.High)
		}
		ex.panicOblig("slice", i.Pos(), isSliceExpr, fmt.Sprintf("(and (bvsle (_ bv0 64) %s) (bvsle %s %s) (bvsle %s (strlen %s)))", lo, lo, hi, hi, x.T))
		ex.setVal(i, fmt.Sprintf("(str_sub %s %s %s)", x.T, lo, hi))
		vc.assume(fmt.Sprintf("(=> %s (= (strlen %s) (bvsub %s %s)))", ex.cur.guard, ex.vals[i].T, hi, lo))
	case *types.Pointer:
		at := u.Elem().Underlying().(*types.Array)
		n := bvLit(uint64(at.Len()), 64)
		hi := n
		if i.High != nil {
			hi = ex.to64(i.High)
		}
		if i.Low != nil || i.High != nil {
			ex.panicOblig("slice", i.Pos(), isSliceExpr, fmt.Sprintf("(and (bvsle (_ bv0 64) %s) (bvsle %s %s) (bvsle %s %s))", lo, lo, hi, hi, n))
		}
		if x.P != nil {
			ex.noteUnsupported("slice of interior array")
			ex.freshVal(i, "slice")
			return
		}
		ex.setVal(i, fmt.Sprintf("(mk_slice %s %s (bvsub %s %s) (bvsub %s %s))", x.T, lo, hi, lo, n, lo))
		if at.Len() == 1 && i.Low == nil && i.High == nil {
			ex.vals[i].Arr1 = x
		}
	}
}

// ---------- driver ---------------------------------------------------------------

func (ex *Exec) computeLoops() {
	fn := ex.fn
	ex.loops = map[*ssa.BasicBlock]*loopInfo{}
	ex.inLoops = map[*ssa.BasicBlock][]*loopInfo{}
	for _, b := range fn.Blocks {
		for _, s := range b.Succs {
			if s.Dominates(b) { // back edge b -> s
				l := ex.loops[s]
				if l == nil {
					l = &loopInfo{head: s, body: map[*ssa.BasicBlock]bool{s: true}, writes: map[string]bool{}}
					ex.loops[s] = l
				}
				// natural loop: nodes reaching b without passing s
				stack := []*ssa.BasicBlock{b}
				for len(stack) > 0 {
					n := stack[len(stack)-1]
					stack = stack[:len(stack)-1]
					if l.body[n] {
						continue
					}
					l.body[n] = true
					stack = append(stack, n.Preds...)
				}
			}
		}
	}
	// ordinals by source order of header position (block index is stable enough
	// within one function: headers are numbered in block order)
	var heads []*ssa.BasicBlock
	for h := range ex.loops {
		heads = append(heads, h)
	}
	sort.Slice(heads, func(a, b int) bool { return heads[a].Index < heads[b].Index })
	for k, h := range heads {
		ex.loops[h].ordinal = k
		if pl := ex.preLoops[h]; pl != nil {
			ex.loops[h].writes = pl.writes
			ex.loops[h].havocAll = pl.havocAll
		}
		for b := range ex.loops[h].body {
			ex.inLoops[b] = append(ex.inLoops[b], ex.loops[h])
		}
	}
}

func (ex *Exec) rpo() []*ssa.BasicBlock {
	fn := ex.fn
	seen := map[*ssa.BasicBlock]bool{}
	var post []*ssa.BasicBlock
	var dfs func(b *ssa.BasicBlock)
	dfs = func(b *ssa.BasicBlock) {
		seen[b] = true
		for _, s := range b.Succs {
			if s.Dominates(b) {
				continue
			}
			if !seen[s] {
				dfs(s)
			}
		}
		post = append(post, b)
	}
	dfs(fn.Blocks[0])
	for i, j := 0, len(post)-1; i < j; i, j = i+1, j-1 {
		post[i], post[j] = post[j], post[i]
	}
	return post
}

// edgeGuard returns the condition under which control flows from p to its
// k-th successor.
func (ex *Exec) edgeGuard(p *ssa.BasicBlock, k int) string {
	st := ex.out[p]
	if st == nil {
		return "false"
	}
	if len(p.Instrs) == 0 {
		return st.guard
	}
	if iff, ok := p.Instrs[len(p.Instrs)-1].(*ssa.If); ok {
		c := ex.val(iff.Cond).T
		if p.Succs[0] == p.Succs[1] {
			return st.guard
		}
		if k == 0 {
			return fmt.Sprintf("(and %s %s)", st.guard, c)
		}
		return fmt.Sprintf("(and %s (not %s))", st.guard, c)
	}
	return st.guard
}

func succIndex(p, b *ssa.BasicBlock, occurrence int) int {
	n := 0
	for k, s := range p.Succs {
		if s == b {
			if n == occurrence {
				return k
			}
			n++
		}
	}
	return -1
}

func (ex *Exec) specEnv(h *Heap) *SpecEnv {
	vars := map[string]TV{}
	for k, v := range ex.params {
		vars[k] = v
	}
	if ex.cur != nil {
		for k, v := range ex.cur.ghosts {
			vars[k] = v
		}
	}
	return &SpecEnv{vc: ex.vc, vars: vars, params: ex.params, heap: h, old: ex.entry}
}

func (ex *Exec) run() {
	vc := ex.vc
	fn := ex.fn
	ex.vals = map[ssa.Value]*Val{}
	ex.out = map[*ssa.BasicBlock]*blockState{}
	ex.callOrd = map[string]int{}
	ex.abstractedGuards = nil
	ex.deferred = nil
	ex.deferGuard = nil
	ex.partialHavocs = nil
	ex.hasDefer = false
	ex.rets = nil

	// entry state
	h0 := vc.newHeap()
	vc.decl("alloc0", "(declare-const alloc0 Int)")
	h0.alloc = "alloc0"
	ex.entry = h0
	ex.params = map[string]TV{}
	vc.assume("(> alloc0 100000)")
	bindParam := func(name string, v ssa.Value) {
		n := fmt.Sprintf("|p.%s|", name)
		vc.decl(n, fmt.Sprintf("(declare-const %s %s)", n, vc.sortOf(v.Type())))
		ex.vals[v] = &Val{T: n}
		ex.params[name] = TV{T: n, Ty: v.Type()}
		vc.wf("true", n, v.Type(), "alloc0")
		vc.modelTerms = append(vc.modelTerms, n)
	}
	for _, p := range fn.Params {
		bindParam(p.Name(), p)
	}
	for _, fv := range fn.FreeVars {
		bindParam(fv.Name(), fv)
	}
	// requires
	env0 := ex.specEnv(h0)
	vc.entryEnv = env0
	vc.entryHeap = h0
	ex.initFrame(env0)
	for _, c := range vc.fc.clauses("requires") {
		t, err := env0.Bool(c.Expr)
		if err != nil {
			vc.ctx.contractError(vc.fc, c, err)
			continue
		}
		vc.assume(t)
	}
	ex.cur = &blockState{heap: h0, guard: "true"}
	ex.entryGhosts = map[string]TV{}
	ex.propRe = nil
	for _, c := range vc.fc.clauses("propagates") {
		if hasProp(c, ex.prop) {
			re, err := regexp.Compile("^(" + c.Expr + ")$")
			if err != nil {
				vc.ctx.contractError(vc.fc, c, err)
				continue
			}
			ex.propRe = re
			ex.entryGhosts["$suberr"] = TV{T: "false", Ty: tBool}
		}
	}
	for _, c := range vc.fc.Clauses {
		if c.Kind == "ghost" && c.When == "entry" {
			tv, err := env0.Any(c.Expr)
			if err != nil {
				vc.ctx.contractError(vc.fc, c, err)
				continue
			}
			tv = env0.defaultType(tv)
			ex.entryGhosts[c.Name] = tv
		}
	}
	for name, tv := range ex.params {
		_ = name
		ex.assumeTypeInv(tv.T, tv.Ty)
	}
	if ex.pass == 2 && len(vc.fc.clauses("requires")) > 0 {
		// vacuity canary: the preconditions / assumed invariants must be satisfiable
		o := ex.oblig("canary", "requires", "", token.NoPos, "false", []string{ex.prop})
		o.Canary = true
	}

	ex.computeROCells()
	ex.computePrivAllocs()
	ex.roStored = map[*ssa.Alloc]bool{}
	ex.computeLoops()
	order := ex.rpo()
	for _, b := range order {
		ex.block(b)
	}
	ex.exit()
}

func (ex *Exec) block(b *ssa.BasicBlock) {
	vc := ex.vc
	ex.curBlk = b
	var st *blockState
	if b.Index == 0 {
		st = &blockState{heap: ex.entry.clone(), guard: "true", ghosts: cloneGhosts(ex.entryGhosts)}
	} else {
		// forward predecessors
		var hs []*Heap
		var gs []string
		var pidx []int
		occ := map[*ssa.BasicBlock]int{}
		for pi, p := range b.Preds {
			o := occ[p]
			occ[p]++
			if b.Dominates(p) { // back edge
				continue
			}
			if ex.out[p] == nil {
				continue
			}
			k := succIndex(p, b, o)
			eg := vc.define(fmt.Sprintf("e%d_%d", p.Index, b.Index), sBool, ex.edgeGuard(p, k))
			hs = append(hs, ex.out[p].heap)
			gs = append(gs, eg)
			pidx = append(pidx, pi)
		}
		if len(hs) == 0 {
			return // unreachable
		}
		guard := gs[0]
		if len(gs) > 1 {
			guard = "(or " + strings.Join(gs, " ") + ")"
		}
		guard = vc.define(fmt.Sprintf("g%d", b.Index), sBool, guard)
		st = &blockState{heap: vc.mergeHeaps(hs, gs), guard: guard, ghosts: ex.mergeGhosts(b, pidx, gs)}
		loop := ex.loops[b]
		// phis
		for _, in := range b.Instrs {
			phi, ok := in.(*ssa.Phi)
			if !ok {
				break
			}
			if loop != nil {
				continue
			}
			ex.vals[phi] = ex.mergePhi(phi, pidx, gs)
		}
		if loop != nil {
			ex.cur = st
			ex.loopHead(b, loop, pidx, gs)
			st = ex.cur
		}
	}
	ex.cur = st
	for _, in := range b.Instrs {
		ex.instr(in)
	}
	ex.out[b] = ex.cur
	// terminator
	if len(b.Instrs) == 0 {
		return
	}
	switch t := b.Instrs[len(b.Instrs)-1].(type) {
	case *ssa.Return:
		ex.ret(t)
	case *ssa.Panic:
		if ex.nopanic {
			sn := vc.snippetAt(t.Pos(), isCallExpr)
			ex.oblig("panic.explicit", "", sn, t.Pos(), fmt.Sprintf("(not %s)", ex.cur.guard), []string{ex.prop})
		}
	}
	// back edges out of this block: invariant preservation
	occ := map[*ssa.BasicBlock]int{}
	for k, s := range b.Succs {
		_ = k
		o := occ[s]
		occ[s]++
		if s.Dominates(b) {
			if l := ex.loops[s]; l != nil {
				ex.backEdge(b, s, l, succIndex(b, s, o))
			}
		}
	}
}

func (ex *Exec) mergeGhosts(b *ssa.BasicBlock, pidx []int, gs []string) map[string]TV {
	vc := ex.vc
	out := map[string]TV{}
	names := map[string]bool{}
	for _, pi := range pidx {
		if st := ex.out[b.Preds[pi]]; st != nil {
			for k := range st.ghosts {
				names[k] = true
			}
		}
	}
	for name := range names {
		var vals []TV
		var proto *TV
		for _, pi := range pidx {
			if v, has := ex.out[b.Preds[pi]].ghosts[name]; has {
				vv := v
				proto = &vv
			}
		}
		for _, pi := range pidx {
			v, has := ex.out[b.Preds[pi]].ghosts[name]
			if !has {
				// not assigned on this path: an arbitrary value
				v = TV{T: vc.fresh("ghost.undef."+name, vc.sortOf(proto.Ty)), Ty: proto.Ty}
			}
			vals = append(vals, v)
		}
		same := true
		for _, v := range vals {
			if v.T != vals[0].T {
				same = false
			}
		}
		if same {
			out[name] = vals[0]
			continue
		}
		t := vals[len(vals)-1].T
		for k := len(vals) - 2; k >= 0; k-- {
			t = fmt.Sprintf("(ite %s %s %s)", gs[k], vals[k].T, t)
		}
		out[name] = TV{T: vc.define("ghost."+name, vc.sortOf(vals[0].Ty), t), Ty: vals[0].Ty}
	}
	return out
}

func (ex *Exec) mergePhi(phi *ssa.Phi, pidx []int, gs []string) *Val {
	vc := ex.vc
	if _, isTup := phi.Type().(*types.Tuple); isTup {
		return ex.val(phi)
	}
	vals := make([]*Val, len(pidx))
	same := true
	for k, pi := range pidx {
		vals[k] = ex.val(phi.Edges[pi])
		if vals[k].P != nil {
			ex.noteUnsupported("phi of interior pointer")
			return &Val{T: vc.fresh("phi.place", sRef)}
		}
		if vals[k].T != vals[0].T {
			same = false
		}
	}
	if same {
		return vals[0]
	}
	t := vals[len(vals)-1].T
	for k := len(vals) - 2; k >= 0; k-- {
		t = fmt.Sprintf("(ite %s %s %s)", gs[k], vals[k].T, t)
	}
	n := fmt.Sprintf("|%s|", phi.Name())
	if ex.pass == 1 {
		n = fmt.Sprintf("|p1.%s|", phi.Name())
	}
	vc.emit(fmt.Sprintf("(define-fun %s () %s %s)", n, vc.sortOf(phi.Type()), t))
	return &Val{T: n}
}

// loopVars binds the names usable in invariants of loop l: header phis by
// their source names (phi comments).
func (ex *Exec) phiNames(b *ssa.BasicBlock) map[string]*ssa.Phi {
	out := map[string]*ssa.Phi{}
	for _, in := range b.Instrs {
		phi, ok := in.(*ssa.Phi)
		if !ok {
			break
		}
		if phi.Comment != "" {
			out[phi.Comment] = phi
		}
		out[phi.Name()] = phi
	}
	return out
}

func (ex *Exec) invEnv(b *ssa.BasicBlock, h *Heap, phiVal func(*ssa.Phi) *Val) *SpecEnv {
	env := ex.specEnv(h)
	for name, phi := range ex.phiNames(b) {
		v := phiVal(phi)
		if v != nil && v.P == nil && len(v.Tup) == 0 {
			env.vars[name] = TV{T: v.T, Ty: phi.Type()}
		}
	}
	// local variables that the loop does not modify: resolved through the
	// DebugRef of their first use inside the loop, provided the SSA value is
	// defined outside the loop (so it is the same in every iteration).
	if l := ex.loops[b]; l != nil {
		done := map[string]bool{}
		phiNames := ex.phiNames(b)
		var blocks []*ssa.BasicBlock
		for bb := range l.body {
			blocks = append(blocks, bb)
		}
		sort.Slice(blocks, func(i, j int) bool { return blocks[i].Index < blocks[j].Index })
		// then the dominators of the header, closest first, last use first
		var doms []*ssa.BasicBlock
		for d := b.Idom(); d != nil; d = d.Idom() {
			doms = append(doms, d)
		}
		scan := func(bb *ssa.BasicBlock, reverse bool) []*ssa.DebugRef {
			var out []*ssa.DebugRef
			for _, in := range bb.Instrs {
				if dr, ok := in.(*ssa.DebugRef); ok {
					out = append(out, dr)
				}
			}
			if reverse {
				for i, j := 0, len(out)-1; i < j; i, j = i+1, j-1 {
					out[i], out[j] = out[j], out[i]
				}
			}
			return out
		}
		var refs []*ssa.DebugRef
		for _, bb := range blocks {
			refs = append(refs, scan(bb, false)...)
		}
		for _, d := range doms {
			refs = append(refs, scan(d, true)...)
		}
		for _, in := range refs {
			{
				dr, ok := in, true
				if !ok || dr.IsAddr {
					continue
				}
				id, ok := dr.Expr.(*ast.Ident)
				if !ok {
					continue
				}
				if done[id.Name] {
					continue
				}
				if _, isPhi := phiNames[id.Name]; isPhi {
					continue
				}
				if vi, isInstr := dr.X.(ssa.Instruction); isInstr && l.body[vi.Block()] {
					continue
				}
				done[id.Name] = true
				v := ex.val(dr.X)
				if v.P == nil && len(v.Tup) == 0 && v.T != "" {
					env.vars[id.Name] = TV{T: v.T, Ty: dr.X.Type()}
				}
			}
		}
	}
	return env
}

func (ex *Exec) loopHead(b *ssa.BasicBlock, l *loopInfo, pidx []int, gs []string) {
	vc := ex.vc
	st := ex.cur
	invs := vc.fc.clauses("invariant")
	// establish: invariant holds on entry, with phi values from the entry edges
	entryPhi := func(phi *ssa.Phi) *Val { return ex.mergePhi(phi, pidx, gs) }
	if ex.pass == 2 {
		envE := ex.invEnv(b, st.heap, entryPhi)
		for _, c := range invs {
			if c.Loop != l.ordinal && c.Loop != -2 {
				continue
			}
			t, err := envE.Bool(c.Expr)
			if err != nil {
				vc.ctx.contractError(vc.fc, c, err)
				continue
			}
			if hasProp(c, ex.prop) || len(c.Props) == 0 {
				ex.oblig("inv.init", fmt.Sprintf("loop%d.%s", l.ordinal, c.Label), "", b.Instrs[0].Pos(), fmt.Sprintf("(=> %s %s)", st.guard, t), []string{ex.prop})
			}
		}
	}
	// havoc
	var nh *Heap
	if ex.pass == 1 || l.havocAll {
		nh = st.heap.havocAll()
		if ex.pass == 2 {
			vc.warn("loop %d: whole heap havocked (abstracted call in body)", l.ordinal)
		}
	} else {
		nh = st.heap.clone()
		names := make([]string, 0, len(l.writes))
		for n := range l.writes {
			names = append(names, n)
		}
		sort.Strings(names)
		for _, n := range names {
			if _, known := vc.arrSort[n]; !known {
				continue // an array no instruction or contract of this function mentions
			}
			if ex.frameActive && ex.pass == 2 {
				sk := vc.fresh("frame.r", "Int")
				ex.oblig("inv.init", fmt.Sprintf("loop%d.frame", l.ordinal), "", token.NoPos,
					fmt.Sprintf("(=> (and %s %s) (= (select %s %s) (select %s %s)))", st.guard, ex.frameCond(n, sk), st.heap.get(n), sk, ex.entry.get(n), sk), []string{ex.prop})
			}
			nh.vers[n] = vc.fresh("loop."+sanitize(n), vc.arrSort[n])
			if ex.frameActive {
				q := fmt.Sprintf("|r?%d|", vc.nfresh)
				vc.nfresh++
				vc.assume(fmt.Sprintf("(forall ((%s Int)) (! (=> %s (= (select %s %s) (select %s %s))) :pattern ((select %s %s))))", q, ex.frameCond(n, q), nh.vers[n], q, ex.entry.get(n), q, nh.vers[n], q))
			}
		}
		a := vc.fresh("alloc", "Int")
		vc.assume(fmt.Sprintf("(>= %s %s)", a, st.heap.alloc))
		nh.alloc = a
	}
	st = &blockState{heap: nh, guard: st.guard, ghosts: ex.havocLoopGhosts(st.ghosts, l)}
	ex.cur = st
	for _, in := range b.Instrs {
		phi, ok := in.(*ssa.Phi)
		if !ok {
			break
		}
		ex.freshVal(phi, "loop")
	}
	// range-over-slice/int loops: go/ssa lowers them to  rangeindex = phi(-1, next);
	// next = rangeindex+1; if next < L.  By construction -1 <= rangeindex and
	// (rangeindex == -1 or rangeindex < L) hold at the loop head in every iteration.
	for _, in := range b.Instrs {
		phi, ok := in.(*ssa.Phi)
		if !ok {
			break
		}
		if phi.Comment != "rangeindex" || len(phi.Edges) != 2 {
			continue
		}
		for _, in2 := range b.Instrs {
			add, ok := in2.(*ssa.BinOp)
			if !ok || add.Op != token.ADD || add.X != phi {
				continue
			}
			if c1, isC := add.Y.(*ssa.Const); !isC || c1.Value == nil || c1.Value.String() != "1" {
				continue
			}
			isBack := false
			for _, e := range phi.Edges {
				if e == add {
					isBack = true
				}
			}
			if !isBack {
				continue
			}
			for _, in3 := range b.Instrs {
				lt, ok := in3.(*ssa.BinOp)
				if !ok || lt.Op != token.LSS || lt.X != add {
					continue
				}
				if li, isI := lt.Y.(ssa.Instruction); isI && l.body[li.Block()] {
					continue
				}
				if iff, ok := b.Instrs[len(b.Instrs)-1].(*ssa.If); !ok || iff.Cond != lt {
					continue
				}
				pv, lv := ex.vals[phi].T, ex.val(lt.Y).T
				vc.assume(fmt.Sprintf("(=> %s (and (bvsle (_ bv18446744073709551615 64) %s) (or (= %s (_ bv18446744073709551615 64)) (bvslt %s %s))))", st.guard, pv, pv, pv, lv))
			}
		}
	}
	if g, ok := st.ghosts["$suberr"]; ok && ex.propRe != nil {
		// a loop is not continued after a sub-error (checked at the entry and back edges)
		if ex.pass == 2 {
			ex.oblig("err.dropped", fmt.Sprintf("loop%d.entry", l.ordinal), "", token.NoPos, fmt.Sprintf("(=> %s (not %s))", st.guard, g.T), []string{ex.prop})
		}
		st.ghosts = cloneGhosts(st.ghosts)
		st.ghosts["$suberr"] = TV{T: "false", Ty: tBool}
	}
	// counting loops:  i = phi(c, i + k) with constants c, k > 0: candidate
	// invariant  i >= c  (assumed here, checked at the back edges as inv.auto).
	l.autoPhis = nil
	for _, in := range b.Instrs {
		phi, ok := in.(*ssa.Phi)
		if !ok || vc.fc.has("noautoinv") {
			// "noautoinv": no candidate facts are assumed (and none has to be checked) in this function
			break
		}
		_, signed, isInt := intInfo(phi.Type())
		if !isInt || !signed || len(phi.Edges) != len(b.Preds) {
			continue
		}
		okPat := true
		lo := ""
		for pi, e := range phi.Edges {
			if b.Dominates(b.Preds[pi]) { // back edge
				add, isAdd := e.(*ssa.BinOp)
				if !isAdd || add.Op != token.ADD || add.X != phi {
					okPat = false
					break
				}
				k, isC := add.Y.(*ssa.Const)
				if !isC || k.Value == nil || constant.Sign(k.Value) <= 0 {
					okPat = false
					break
				}
			} else {
				c0, isC := e.(*ssa.Const)
				if !isC || c0.Value == nil {
					okPat = false
					break
				}
				t := ex.constTerm(c0)
				if lo != "" && lo != t {
					okPat = false
					break
				}
				lo = t
			}
		}
		if !okPat || lo == "" {
			continue
		}
		l.autoPhis = append(l.autoPhis, autoInv{phi, lo})
		vc.assume(fmt.Sprintf("(=> %s (bvsle %s %s))", st.guard, lo, ex.vals[phi].T))
	}
	envH := ex.invEnv(b, st.heap, func(p *ssa.Phi) *Val { return ex.vals[p] })
	for _, c := range invs {
		if c.Loop != l.ordinal && c.Loop != -2 {
			continue
		}
		t, err := envH.Bool(c.Expr)
		if err != nil {
			continue
		}
		vc.assume(fmt.Sprintf("(=> %s %s)", st.guard, t))
	}
	if ex.pass == 2 && len(invs) > 0 {
		has := false
		for _, c := range invs {
			if c.Loop == l.ordinal || c.Loop == -2 {
				has = true
			}
		}
		if has {
			o := ex.oblig("canary", fmt.Sprintf("loop%d", l.ordinal), "", token.NoPos, fmt.Sprintf("(not %s)", st.guard), []string{ex.prop})
			o.Canary = true
		}
	}
}

// havocLoopGhosts: a ghost variable that a call site inside the loop body assigns has an
// unknown value at the loop head (only the loop invariants constrain it).
func (ex *Exec) havocLoopGhosts(g map[string]TV, l *loopInfo) map[string]TV {
	vc := ex.vc
	var out map[string]TV
	for _, c := range vc.fc.Clauses {
		if c.Kind != "ghost" || c.When == "entry" {
			continue
		}
		cur, has := g[c.Name]
		if !has {
			continue
		}
		assigned := false
		for bb := range l.body {
			for _, in := range bb.Instrs {
				switch i := in.(type) {
				case ssa.CallInstruction:
					if calleeBareName(i.Common()) == c.Callee {
						assigned = true
					}
				case *ssa.MapUpdate:
					if c.Callee == "mapstore" {
						assigned = true
					}
				}
			}
		}
		if !assigned {
			continue
		}
		if out == nil {
			out = cloneGhosts(g)
		}
		out[c.Name] = TV{T: vc.fresh("ghost.loop."+c.Name, vc.sortOf(cur.Ty)), Ty: cur.Ty}
	}
	if out == nil {
		return g
	}
	return out
}

func (ex *Exec) backEdge(p, head *ssa.BasicBlock, l *loopInfo, k int) {
	vc := ex.vc
	if ex.pass != 2 {
		return
	}
	eg := ex.edgeGuard(p, k)
	pi := -1
	for i, q := range head.Preds {
		if q == p {
			pi = i
		}
	}
	if g, ok := ex.out[p].ghosts["$suberr"]; ok && ex.propRe != nil {
		ex.oblig("err.dropped", fmt.Sprintf("loop%d.continue", l.ordinal), "", token.NoPos, fmt.Sprintf("(=> %s (not %s))", eg, g.T), []string{ex.prop})
	}
	for _, ai := range l.autoPhis {
		v := ex.val(ai.phi.Edges[pi])
		ex.oblig("inv.auto", fmt.Sprintf("loop%d.%s>=init", l.ordinal, ai.phi.Comment), "", token.NoPos, fmt.Sprintf("(=> %s (bvsle %s %s))", eg, ai.lo, v.T), []string{ex.prop})
	}
	if ex.frameActive && !l.havocAll {
		names := make([]string, 0, len(l.writes))
		for n := range l.writes {
			names = append(names, n)
		}
		sort.Strings(names)
		for _, n := range names {
			if _, known := vc.arrSort[n]; !known {
				continue
			}
			sk := vc.fresh("frame.r", "Int")
			ex.oblig("inv.pres", fmt.Sprintf("loop%d.frame", l.ordinal), "", token.NoPos,
				fmt.Sprintf("(=> (and %s %s) (= (select %s %s) (select %s %s)))", eg, ex.frameCond(n, sk), ex.out[p].heap.get(n), sk, ex.entry.get(n), sk), []string{ex.prop})
		}
	}
	env := ex.invEnv(head, ex.out[p].heap, func(phi *ssa.Phi) *Val { return ex.val(phi.Edges[pi]) })
	for gn, gv := range ex.out[p].ghosts {
		env.vars[gn] = gv
	}
	for _, c := range vc.fc.clauses("invariant") {
		if c.Loop != l.ordinal && c.Loop != -2 {
			continue
		}
		if !(hasProp(c, ex.prop) || len(c.Props) == 0) {
			continue
		}
		t, err := env.Bool(c.Expr)
		if err != nil {
			vc.ctx.contractError(vc.fc, c, err)
			continue
		}
		ex.oblig("inv.pres", fmt.Sprintf("loop%d.%s", l.ordinal, c.Label), "", token.NoPos, fmt.Sprintf("(=> %s %s)", eg, t), []string{ex.prop})
	}
}

func (ex *Exec) resultNames() []string {
	res := ex.fn.Signature.Results()
	var out []string
	for i := 0; i < res.Len(); i++ {
		out = append(out, res.At(i).Name())
	}
	return out
}

type retInfo struct {
	ghosts map[string]TV
	guard  string
	heap   *Heap
	vals   []*Val
	pos    token.Pos
}

func (ex *Exec) ret(r *ssa.Return) {
	ri := retInfo{guard: ex.cur.guard, heap: ex.cur.heap, pos: r.Pos(), ghosts: ex.cur.ghosts}
	for _, rv := range r.Results {
		ri.vals = append(ri.vals, ex.val(rv))
	}
	ex.rets = append(ex.rets, ri)
}

// exit joins all returns into one exit state and generates the postcondition
// and frame obligations there.
func (ex *Exec) exit() {
	vc := ex.vc
	if len(ex.rets) == 0 {
		return
	}
	var hs []*Heap
	var gs []string
	for _, r := range ex.rets {
		hs = append(hs, r.heap)
		gs = append(gs, r.guard)
	}
	g := gs[0]
	if len(gs) > 1 {
		g = "(or " + strings.Join(gs, " ") + ")"
	}
	g = vc.define("g.exit", sBool, g)
	h := vc.mergeHeaps(hs, gs)
	eg := map[string]TV{}
	{
		names := map[string]bool{}
		for _, r := range ex.rets {
			for k := range r.ghosts {
				names[k] = true
			}
		}
		for name := range names {
			var vals []TV
			var proto *TV
			for _, r := range ex.rets {
				if v, has := r.ghosts[name]; has {
					vv := v
					proto = &vv
				}
			}
			for _, r := range ex.rets {
				v, has := r.ghosts[name]
				if !has {
					v = TV{T: vc.fresh("ghost.undef."+name, vc.sortOf(proto.Ty)), Ty: proto.Ty}
				}
				vals = append(vals, v)
			}
			t := vals[len(vals)-1].T
			for k := len(vals) - 2; k >= 0; k-- {
				if vals[k].T != t {
					t = fmt.Sprintf("(ite %s %s %s)", gs[k], vals[k].T, t)
				}
			}
			eg[name] = TV{T: vc.define("ghost."+name, vc.sortOf(vals[0].Ty), t), Ty: vals[0].Ty}
		}
	}
	ex.cur = &blockState{heap: h, guard: g, ghosts: eg}
	env := ex.specEnv(h)
	res := ex.fn.Signature.Results()
	for i := 0; i < res.Len(); i++ {
		ok := true
		for _, r := range ex.rets {
			if i >= len(r.vals) || r.vals[i].P != nil || len(r.vals[i].Tup) > 0 {
				ok = false
			}
		}
		if !ok {
			continue
		}
		t := ex.rets[len(ex.rets)-1].vals[i].T
		for k := len(ex.rets) - 2; k >= 0; k-- {
			if ex.rets[k].vals[i].T != t {
				t = fmt.Sprintf("(ite %s %s %s)", gs[k], ex.rets[k].vals[i].T, t)
			}
		}
		n := vc.define(fmt.Sprintf("ret%d", i), vc.sortOf(res.At(i).Type()), t)
		tv := TV{T: n, Ty: res.At(i).Type()}
		env.vars[fmt.Sprintf("r%d", i)] = tv
		if nm := res.At(i).Name(); nm != "" && nm != "_" {
			env.vars[nm] = tv
		}
		if i == 0 {
			env.vars["result"] = tv
		}
		vc.modelTerms = append(vc.modelTerms, n)
	}
	if ex.pass != 2 {
		return
	}
	pos := ex.rets[0].pos
	if se, ok := eg["$suberr"]; ok && ex.propRe != nil && res.Len() > 0 {
		if lastv, ok := env.vars[fmt.Sprintf("r%d", res.Len()-1)]; ok && types.TypeString(lastv.Ty, nil) == "error" {
			ex.oblig("err.dropped", "", "", pos, fmt.Sprintf("(=> %s (=> %s (not (iface_isnil %s))))", g, se.T, lastv.T), []string{ex.prop})
		}
	}
	for _, c := range vc.fc.own("ensures") {
		if !hasProp(c, ex.prop) {
			continue
		}
		t, err := env.Bool(c.Expr)
		if err != nil {
			vc.ctx.contractError(vc.fc, c, err)
			continue
		}
		ex.oblig("post", c.Label, "", pos, fmt.Sprintf("(=> %s %s)", g, t), []string{ex.prop})
	}
	if ex.frameActive {
		ex.frame(nil, env, pos)
	}
	for _, c := range vc.fc.own("preserves") {
		if !(hasProp(c, ex.prop) || len(c.Props) == 0) {
			continue
		}
		arr, refs, err := vc.preservesLoc(vc.entryEnv, c.Expr)
		if err != nil {
			vc.ctx.contractError(vc.fc, c, err)
			continue
		}
		sk := vc.fresh("pres.r", "Int")
		var ex2 []string
		for _, r := range refs {
			ex2 = append(ex2, fmt.Sprintf("(not (= %s %s))", sk, r))
		}
		ex.oblig("preserves", strings.Fields(c.Expr)[0], "", pos, fmt.Sprintf("(=> (and %s (>= %s 0) (< %s alloc0) %s) (= (select %s %s) (select %s %s)))",
			g, sk, sk, strings.Join(ex2, " "), h.get(arr), sk, ex.entry.get(arr), sk), []string{ex.prop})
	}
}

// modLoc is one location a contract allows to be modified.
type modLoc struct {
	arr string // heap array name
	ref string // Ref term
}

func (vc *VC) modLocs(env *SpecEnv, expr string) (locs []modLoc, everything bool, err error) {
	expr = strings.TrimSpace(expr)
	if expr == "nothing" || expr == "" {
		return nil, false, nil
	}
	if expr == "everything" {
		return nil, true, nil
	}
	old := *env
	old.inOld = true
	for _, part := range splitTop(expr, ',') {
		part = strings.TrimSpace(part)
		switch {
		case strings.HasPrefix(part, "elems(") && strings.HasSuffix(part, ")"):
			tv, e := old.Any(part[6 : len(part)-1])
			if e != nil {
				return nil, false, e
			}
			sl, ok := tv.Ty.Underlying().(*types.Slice)
			if !ok {
				return nil, false, fmt.Errorf("elems() of non-slice")
			}
			locs = append(locs, modLoc{vc.elemsArr(sl.Elem()), "(sarr " + tv.T + ")"})
		case strings.HasPrefix(part, "map(") && strings.HasSuffix(part, ")"):
			tv, e := old.Any(part[4 : len(part)-1])
			if e != nil {
				return nil, false, e
			}
			mt, ok := tv.Ty.Underlying().(*types.Map)
			if !ok {
				return nil, false, fmt.Errorf("map() of non-map")
			}
			d, v, l := vc.mapArrs(mt)
			locs = append(locs, modLoc{d, tv.T}, modLoc{v, tv.T}, modLoc{l, tv.T})
		case strings.HasPrefix(part, "*"):
			tv, e := old.Any(part[1:])
			if e != nil {
				return nil, false, e
			}
			pt, ok := tv.Ty.Underlying().(*types.Pointer)
			if !ok {
				return nil, false, fmt.Errorf("*p of non-pointer")
			}
			if st, isSt := pt.Elem().Underlying().(*types.Struct); isSt {
				for k := 0; k < st.NumFields(); k++ {
					locs = append(locs, modLoc{vc.fieldArr(vc.structName(pt.Elem(), st), st.Field(k)), tv.T})
				}
			} else {
				locs = append(locs, modLoc{vc.cellArr(pt.Elem()), tv.T})
			}
		default:
			j := strings.LastIndex(part, ".")
			if j < 0 {
				return nil, false, fmt.Errorf("bad modifies location %q", part)
			}
			tv, e := old.Any(part[:j])
			if e != nil {
				return nil, false, e
			}
			st, elemT, ok := derefStruct(tv.Ty)
			if !ok {
				return nil, false, fmt.Errorf("modifies %q: not a struct pointer", part)
			}
			fi := findField(st, part[j+1:])
			if fi < 0 {
				return nil, false, fmt.Errorf("modifies %q: no such field", part)
			}
			locs = append(locs, modLoc{vc.fieldArr(vc.structName(elemT, st), st.Field(fi)), tv.T})
		}
	}
	return locs, false, nil
}

// frameCond: "r is a pre-existing location of array n that the contract does not allow to change".
func (ex *Exec) frameCond(n, r string) string {
	var ex2 []string
	for _, l := range ex.frameLocs {
		if l.arr == n {
			ex2 = append(ex2, fmt.Sprintf("(not (= %s %s))", r, l.ref))
		}
	}
	return fmt.Sprintf("(and (>= %s 0) (< %s alloc0) %s)", r, r, strings.Join(ex2, " "))
}

// initFrame evaluates the function's modifies clauses (for this property) once, at entry.
func (ex *Exec) initFrame(env0 *SpecEnv) {
	vc := ex.vc
	ex.frameActive = false
	ex.frameLocs = nil
	var cls []*Clause
	for _, c := range vc.fc.own("modifies") {
		if hasProp(c, ex.prop) || len(c.Props) == 0 {
			cls = append(cls, c)
		}
	}
	if len(vc.fc.own("pure")) > 0 {
		cls = append(cls, &Clause{Kind: "modifies", Expr: "nothing"})
	}
	if len(cls) == 0 {
		return
	}
	ex.frameActive = true
	for _, c := range cls {
		locs, everything, err := vc.modLocs(env0, c.Expr)
		if err != nil {
			vc.ctx.contractError(vc.fc, c, err)
			continue
		}
		if everything {
			ex.frameActive = false
			return
		}
		ex.frameLocs = append(ex.frameLocs, locs...)
	}
}

func (ex *Exec) frame(c *Clause, env *SpecEnv, pos token.Pos) {
	vc := ex.vc
	locs := ex.frameLocs
	g := ex.cur.guard
	if len(ex.abstractedGuards) > 0 {
		ex.oblig("frame", "abstracted-call", "", pos, fmt.Sprintf("(not (and %s (or %s)))", g, strings.Join(ex.abstractedGuards, " ")), []string{ex.prop})
	}
	var names []string
	for n := range vc.arrSort {
		names = append(names, n)
	}
	sort.Strings(names)
	n0 := 0
	for _, n := range names {
		a0, a1 := ex.entry.get(n), ex.cur.heap.get(n)
		if a0 == a1 {
			continue
		}
		n0++
		sk := vc.fresh("frame.r", "Int")
		var ex2 []string
		for _, l := range locs {
			if l.arr == n {
				ex2 = append(ex2, fmt.Sprintf("(not (= %s %s))", sk, l.ref))
			}
		}
		goal := fmt.Sprintf("(=> (and (>= %s 0) (< %s alloc0) %s) (= (select %s %s) (select %s %s)))", sk, sk, strings.Join(ex2, " "), a1, sk, a0, sk)
		ex.oblig("frame", n, "", pos, fmt.Sprintf("(=> %s %s)", g, goal), []string{ex.prop})
	}
	if n0 == 0 {
		ex.oblig("frame", "", "", pos, "true", []string{ex.prop})
	}
}

// fpArith encodes a floating-point +,-,*,/ either exactly (SMT FloatingPoint,
// round-nearest-even) or, when the function's contract says "fparith
// uninterpreted", as an uninterpreted function (sound abstraction: only
// congruence is available to the proof).
func (vc *VC) fpArith(op, x, y, sort string) string {
	if vc.fpUF {
		return vc.uf(op+"."+sortKey(sort), []string{sort, sort}, sort, x, y)
	}
	return fmt.Sprintf("(%s RNE %s %s)", op, x, y)
}

// assumeTypeInv assumes the data-structure invariants declared for the pointee
// type of v (a value of pointer type just read by a non-owner function).
func (ex *Exec) assumeTypeInv(term string, t types.Type) {
	pt, ok := t.Underlying().(*types.Pointer)
	if !ok {
		return
	}
	n, ok := pt.Elem().(*types.Named)
	if !ok || n.Obj().Pkg() != ex.vc.ctx.tpkg {
		return
	}
	for tix, ti := range ex.vc.ctx.cf.TypeInvs {
		if ti.Type != n.Obj().Name() || ti.Stable || ti.WritersOnly {
			continue
		}
		if !ex.relevantTI(tix) {
			continue
		}
		owner := false
		for _, o := range ti.Owners {
			if o == ex.vc.fnName() {
				owner = true
			}
		}
		if owner {
			continue
		}
		key := ti.Type + "|" + term + "|" + fmt.Sprint(ex.cur.heap.id) + "|" + fmt.Sprint(len(ex.cur.heap.vers))
		if ex.tiDone == nil {
			ex.tiDone = map[string]bool{}
		}
		if ex.tiDone[key] {
			continue
		}
		ex.tiDone[key] = true
		env := &SpecEnv{vc: ex.vc, vars: map[string]TV{"self": {T: term, Ty: t}}, params: ex.params, heap: ex.cur.heap, old: ex.entry}
		b, err := env.Bool(ti.Expr)
		if err != nil {
			ex.vc.ctx.contractErrors = append(ex.vc.ctx.contractErrors, fmt.Sprintf("typeinv %s (line %d): %v", ti.Type, ti.Line, err))
			continue
		}
		ex.vc.assume(fmt.Sprintf("(=> (and %s (not (= %s 0))) %s)", ex.cur.guard, term, b))
		ex.vc.usedTypeInvs[ti.Type] = true
	}
}

// relevantTI: a type invariant is assumed only in functions that can use it:
// they read one of its fields, or call a function whose contract restates it.
func (ex *Exec) relevantTI(tix int) bool {
	if ex.tiRelevant == nil {
		ex.tiRelevant = map[int]bool{}
		callsInvUser := false
		for _, b := range ex.fn.Blocks {
			for _, in := range b.Instrs {
				switch i := in.(type) {
				case *ssa.FieldAddr:
					T, f, ok := fieldOfLoad(i)
					if !ok {
						continue
					}
					for k, ti := range ex.vc.ctx.cf.TypeInvs {
						if ti.Type == T {
							for _, tf := range ti.Fields {
								if tf == f {
									ex.tiRelevant[k] = true
								}
							}
						}
					}
				case *ssa.Call:
					if cal := i.Call.StaticCallee(); cal != nil {
						if fc := ex.vc.ctx.cf.Funcs[cal.RelString(ex.vc.ctx.tpkg)]; fc != nil {
							for _, c := range fc.clauses("requires") {
								if c.TypeInv || strings.Contains(c.Expr, "wfs(") {
									callsInvUser = true
								}
							}
						}
					}
				}
			}
		}
		if callsInvUser {
			for k := range ex.vc.ctx.cf.TypeInvs {
				ex.tiRelevant[k] = true
			}
		}
	}
	return ex.tiRelevant[tix]
}
