package main

// solve.go: script assembly and the solver race (z3 4.8.12, z3-new 5.1.0, cvc5).

import (
	"bytes"
	"context"
	"fmt"
	"os"
	"os/exec"
	"path/filepath"
	"regexp"
	"strings"
	"sync"
	"time"
)

func (o *Obligation) script(withModel bool) string {
	vc := o.vc
	var b strings.Builder
	b.WriteString("(set-option :produce-models true)\n(set-logic ALL)\n")
	for _, l := range vc.preludeLines() {
		b.WriteString(l + "\n")
	}
	for _, l := range vc.decls {
		b.WriteString(l + "\n")
	}
	for _, l := range vc.strFacts() {
		b.WriteString(l + "\n")
	}
	for _, l := range vc.tagFacts() {
		b.WriteString(l + "\n")
	}
	for _, l := range vc.globalFacts() {
		b.WriteString(l + "\n")
	}
	for _, l := range sliceBody(vc.body[:o.Prefix], o.Goal) {
		b.WriteString(l + "\n")
	}
	b.WriteString("(assert (not " + o.Goal + "))\n(check-sat)\n")
	if withModel {
		b.WriteString("(get-model)\n")
	}
	return b.String()
}

type solverSpec struct {
	name string
	argv func(file string, secs int) []string
}

var solvers = []solverSpec{
	{"z3-new", func(f string, s int) []string { return []string{"z3-new", fmt.Sprintf("-T:%d", s), "-smt2", f} }},
	{"z3", func(f string, s int) []string { return []string{"z3", fmt.Sprintf("-T:%d", s), "-smt2", f} }},
	{"cvc5", func(f string, s int) []string {
		return []string{"cvc5", fmt.Sprintf("--tlimit=%d", s*1000), "--lang=smt2", f}
	}},
}

type solveResult struct {
	status string
	solver string
	out    string
	secs   float64
}

func runSolver(ctx context.Context, sp solverSpec, file string, secs int) solveResult {
	start := time.Now()
	argv := sp.argv(file, secs)
	c, cancel := context.WithTimeout(ctx, time.Duration(secs+2)*time.Second)
	defer cancel()
	cmd := exec.CommandContext(c, argv[0], argv[1:]...)
	var out bytes.Buffer
	cmd.Stdout = &out
	cmd.Stderr = &out
	cmd.Run()
	s := out.String()
	first := strings.TrimSpace(strings.SplitN(s, "\n", 2)[0])
	st := "unknown"
	switch first {
	case "unsat", "sat":
		st = first
	case "timeout":
		st = "timeout"
	}
	if st == "unknown" && (c.Err() != nil || strings.Contains(s, "timeout") || strings.Contains(s, "interrupted")) {
		st = "timeout"
	}
	if st == "unknown" && strings.Contains(s, "error") && !strings.HasPrefix(first, "unknown") {
		st = "error"
	}
	return solveResult{st, sp.name, s, time.Since(start).Seconds()}
}

// discharge runs one obligation: z3-new alone with a short budget first, then
// all three solvers raced with the full budget.
func discharge(o *Obligation, dir string, budget int, requireAll bool) {
	file := filepath.Join(dir, sanitizeFile(o.Name)+".smt2")
	sc := o.script(true)
	o.Script = file
	if err := os.WriteFile(file, []byte(sc), 0o644); err != nil {
		o.Status = "error"
		return
	}
	start := time.Now()
	defer func() { o.TimeS = time.Since(start).Seconds() }()
	ctx, cancel := context.WithCancel(context.Background())
	defer cancel()
	var results []solveResult
	group := solvers
	if !requireAll {
		group = []solverSpec{solvers[0], solvers[2]} // z3-new and cvc5 first
	}
	ch := make(chan solveResult, len(solvers))
	for _, sp := range group {
		go func(sp solverSpec) { ch <- runSolver(ctx, sp, file, budget) }(sp)
	}
	for range group {
		r := <-ch
		results = append(results, r)
		if !requireAll && (r.status == "sat" || r.status == "unsat") {
			o.Status, o.Solver, o.Model = r.status, r.solver, modelOf(r)
			if r.status == "sat" && r.solver == "cvc5" {
				// models are taken from z3 when it can produce one quickly
				if r2 := runSolver(ctx, solvers[0], file, 5); r2.status == "sat" {
					o.Model = modelOf(r2)
				}
			}
			return
		}
	}
	if !requireAll {
		r := runSolver(ctx, solvers[1], file, budget)
		results = append(results, r)
		if r.status == "sat" || r.status == "unsat" {
			o.Status, o.Solver, o.Model = r.status, r.solver, modelOf(r)
			return
		}
	}
	if requireAll {
		// all definitive answers must agree; at least one must be definitive
		st := ""
		var who []string
		for _, r := range results {
			if r.status == "sat" || r.status == "unsat" {
				if st != "" && st != r.status {
					o.Status, o.Solver = "error", "disagreement"
					o.Model = fmt.Sprintf("solver disagreement: %v", results)
					return
				}
				st = r.status
				who = append(who, r.solver)
				if r.status == "sat" && o.Model == "" {
					o.Model = modelOf(r)
				}
			}
		}
		if st != "" {
			o.Status, o.Solver = st, strings.Join(who, "+")
			return
		}
	}
	o.Status = "unknown"
	for _, r := range results {
		if r.status == "timeout" {
			o.Status = "timeout"
		}
		if r.status == "error" && o.Model == "" {
			o.Model = r.solver + ": " + firstLines(r.out, 5)
		}
	}
	o.Solver = "none"
}

func modelOf(r solveResult) string {
	if r.status != "sat" {
		return ""
	}
	if i := strings.Index(r.out, "\n"); i >= 0 {
		return r.out[i+1:]
	}
	return ""
}

func firstLines(s string, n int) string {
	ls := strings.Split(s, "\n")
	if len(ls) > n {
		ls = ls[:n]
	}
	return strings.Join(ls, " | ")
}

func sanitizeFile(s string) string {
	var b strings.Builder
	for _, r := range s {
		switch {
		case r >= 'a' && r <= 'z', r >= 'A' && r <= 'Z', r >= '0' && r <= '9', r == '.', r == '-', r == '_', r == '#':
			b.WriteRune(r)
		default:
			b.WriteByte('_')
		}
	}
	s = b.String()
	if len(s) > 150 {
		s = s[:150]
	}
	return s
}

func dischargeAll(obls []*Obligation, dir string, budget int, requireAll bool, par int) {
	var wg sync.WaitGroup
	sem := make(chan struct{}, par)
	for _, o := range obls {
		if o.Backend == "ssa-scan" {
			continue
		}
		wg.Add(1)
		sem <- struct{}{}
		go func(o *Obligation) {
			defer wg.Done()
			defer func() { <-sem }()
			discharge(o, dir, budget, requireAll)
		}(o)
	}
	wg.Wait()
}

var symRe = regexp.MustCompile(`\|[^|]+\|`)

// sliceBody keeps the definitions the goal depends on and the assumptions that
// share a (quoted) symbol with that cone, to a fixpoint.  Dropping assumptions
// can only make an obligation harder to discharge, never easier: sound.
func sliceBody(body []string, goal string) []string {
	if os.Getenv("ZVC_NOSLICE") != "" {
		return body
	}
	type line struct {
		text string
		def  string
		syms []string
		in   bool
	}
	lines := make([]line, len(body))
	defIdx := map[string]int{}
	for i, t := range body {
		l := line{text: t}
		if strings.HasPrefix(t, "(define-fun ") {
			rest := t[len("(define-fun "):]
			if j := strings.Index(rest, " "); j > 0 {
				l.def = rest[:j]
				defIdx[l.def] = i
			}
		}
		l.syms = symRe.FindAllString(t, -1)
		if strings.HasPrefix(t, "(assert (>= |alloc!") {
			l.in = true // allocation-counter monotonicity: tiny, always relevant
		}
		lines[i] = l
	}
	rel := map[string]bool{}
	var work []string
	add := func(s string) {
		if !rel[s] {
			rel[s] = true
			work = append(work, s)
		}
	}
	for _, s := range symRe.FindAllString(goal, -1) {
		add(s)
	}
	for _, l := range lines {
		if l.in {
			for _, s := range l.syms {
				add(s)
			}
		}
	}
	// index: symbol -> assert lines mentioning it
	byAssert := map[string][]int{}
	for i, l := range lines {
		if l.def == "" {
			for _, s := range l.syms {
				byAssert[s] = append(byAssert[s], i)
			}
		}
	}
	for len(work) > 0 {
		s := work[len(work)-1]
		work = work[:len(work)-1]
		if i, ok := defIdx[s]; ok && !lines[i].in {
			lines[i].in = true
			for _, t := range lines[i].syms {
				add(t)
			}
		}
		if ubiquitous(s) {
			continue
		}
		for _, i := range byAssert[s] {
			if !lines[i].in {
				lines[i].in = true
				for _, t := range lines[i].syms {
					add(t)
				}
			}
		}
	}
	var out []string
	for _, l := range lines {
		if l.in || (l.def == "" && len(l.syms) == 0) {
			out = append(out, l.text)
		}
	}
	return out
}

// symbols that occur almost everywhere do not by themselves make an assumption relevant
func ubiquitous(s string) bool {
	return strings.HasPrefix(s, "|alloc!") || strings.HasPrefix(s, "|str!")
}
