package main

// calls.go: call handling — builtins, contracted callees, standard-library
// facts, abstraction of everything else.

import (
	"fmt"
	"go/ast"
	"go/token"
	"go/types"
	"os"
	"regexp"
	"sort"
	"strings"

	"golang.org/x/tools/go/ssa"
)

func calleeBareName(cc *ssa.CallCommon) string {
	if cc.IsInvoke() {
		return cc.Method.Name()
	}
	if f := cc.StaticCallee(); f != nil {
		return f.Name()
	}
	if b, ok := cc.Value.(*ssa.Builtin); ok {
		return b.Name()
	}
	// dynamic: name of the variable / field holding the function
	switch v := cc.Value.(type) {
	case *ssa.UnOp:
		if fa, ok := v.X.(*ssa.FieldAddr); ok {
			st := fa.X.Type().Underlying().(*types.Pointer).Elem().Underlying().(*types.Struct)
			return st.Field(fa.Field).Name()
		}
	case *ssa.Parameter:
		return v.Name()
	case *ssa.FreeVar:
		return v.Name()
	case *ssa.MakeClosure:
		return v.Fn.Name()
	}
	return "dyn"
}

// indexCalls numbers the calls of fn per bare callee name in source order.
func (ex *Exec) indexCalls() {
	type ent struct {
		in  ssa.Instruction
		pos token.Pos
		idx int
	}
	by := map[string][]ent{}
	n := 0
	for _, b := range ex.fn.Blocks {
		for _, in := range b.Instrs {
			var cc *ssa.CallCommon
			switch c := in.(type) {
			case *ssa.Call:
				cc = c.Common()
			case *ssa.Defer:
				cc = c.Common()
			case *ssa.Go:
				cc = c.Common()
			}
			if cc == nil {
				continue
			}
			n++
			name := calleeBareName(cc)
			by[name] = append(by[name], ent{in, in.Pos(), n})
		}
	}
	ex.callIdxOf = map[ssa.Instruction]int{}
	ex.mapStoreOrd = map[*ssa.MapUpdate]int{}
	{
		var ms []*ssa.MapUpdate
		for _, b := range ex.fn.Blocks {
			for _, in := range b.Instrs {
				if mu, ok := in.(*ssa.MapUpdate); ok {
					ms = append(ms, mu)
				}
			}
		}
		sort.SliceStable(ms, func(a, b int) bool { return ms[a].Pos() < ms[b].Pos() })
		for k, mu := range ms {
			ex.mapStoreOrd[mu] = k
		}
	}
	for _, es := range by {
		sort.SliceStable(es, func(a, b int) bool {
			if es[a].pos != es[b].pos {
				return es[a].pos < es[b].pos
			}
			return es[a].idx < es[b].idx
		})
		for k, e := range es {
			ex.callIdxOf[e.in] = k
		}
	}
}

func elemSortOfArr(arrSort string) string {
	s := strings.TrimPrefix(arrSort, "(Array Int ")
	return strings.TrimSuffix(s, ")")
}

// localsBefore resolves source-level local variable names to the SSA values they
// denote just before instruction site (through the DebugRefs of the site's block
// and of its dominators, nearest first).
func (ex *Exec) localsBefore(site ssa.Instruction) map[string]TV {
	out := map[string]TV{}
	if site == nil || site.Block() == nil {
		return out
	}
	take := func(dr *ssa.DebugRef) {
		if dr.IsAddr {
			return
		}
		id, ok := dr.Expr.(*ast.Ident)
		if !ok {
			return
		}
		if _, have := out[id.Name]; have {
			return
		}
		v, known := ex.vals[dr.X]
		if !known {
			if _, isConst := dr.X.(*ssa.Const); !isConst {
				if _, isParam := dr.X.(*ssa.Parameter); !isParam {
					return
				}
			}
			v = ex.val(dr.X)
		}
		if v.P != nil || len(v.Tup) > 0 || v.T == "" {
			return
		}
		out[id.Name] = TV{T: v.T, Ty: dr.X.Type()}
	}
	b := site.Block()
	idx := len(b.Instrs)
	for i, in := range b.Instrs {
		if in == site {
			idx = i
		}
	}
	for i := idx - 1; i >= 0; i-- {
		if dr, ok := b.Instrs[i].(*ssa.DebugRef); ok {
			take(dr)
		}
	}
	for d := b.Idom(); d != nil; d = d.Idom() {
		for i := len(d.Instrs) - 1; i >= 0; i-- {
			if dr, ok := d.Instrs[i].(*ssa.DebugRef); ok {
				take(dr)
			}
		}
	}
	return out
}

func (ex *Exec) callSiteClauses(name string, k int, when string, args []TV, rets []TV, pos token.Pos, site ssa.Instruction) {
	vc := ex.vc
	for _, c := range vc.fc.Clauses {
		if (c.Kind != "ghost" && c.Kind != "assert") || c.When != when || c.Callee != name || (c.CallK != k && c.CallK != -1) {
			continue
		}
		env := ex.specEnv(ex.cur.heap)
		for n, tv := range ex.localsBefore(site) {
			if _, have := env.vars[n]; !have || ex.params[n].T == env.vars[n].T {
				env.vars[n] = tv
			}
		}
		for i, a := range args {
			env.vars[fmt.Sprintf("arg%d", i)] = a
		}
		for i, r := range rets {
			env.vars[fmt.Sprintf("ret%d", i)] = r
		}
		c.used = true
		if c.Kind == "ghost" {
			tv, err := env.Any(c.Expr)
			if err != nil {
				vc.ctx.contractError(vc.fc, c, err)
				continue
			}
			tv = env.defaultType(tv)
			n := vc.define("ghost."+c.Name, vc.sortOf(tv.Ty), tv.T)
			if ex.cur.ghosts == nil {
				ex.cur.ghosts = map[string]TV{}
			} else {
				ex.cur.ghosts = cloneGhosts(ex.cur.ghosts)
			}
			ex.cur.ghosts[c.Name] = TV{T: n, Ty: tv.Ty}
			continue
		}
		if !hasProp(c, ex.prop) {
			continue
		}
		t, err := env.Bool(c.Expr)
		if err != nil {
			vc.ctx.contractError(vc.fc, c, err)
			continue
		}
		ex.oblig("assert", c.Label, "", pos, fmt.Sprintf("(=> %s %s)", ex.cur.guard, t), []string{ex.prop})
	}
}

func (ex *Exec) argTVs(cc *ssa.CallCommon) []TV {
	var out []TV
	if cc.IsInvoke() {
		out = append(out, TV{T: ex.val(cc.Value).T, Ty: cc.Value.Type()})
	}
	for _, a := range cc.Args {
		v := ex.val(a)
		t := v.T
		if v.P != nil {
			t = "0"
		}
		out = append(out, TV{T: t, Ty: a.Type()})
	}
	return out
}

func (ex *Exec) call(v ssa.Value, cc *ssa.CallCommon, instr ssa.Instruction) {
	vc := ex.vc
	name := calleeBareName(cc)
	k := ex.callIdxOf[instr]
	args := ex.argTVs(cc)
	ex.callSiteClauses(name, k, "before", args, nil, instr.Pos(), instr)
	ex.dispatch(v, cc, instr, name, args)
	var rets []TV
	if v != nil {
		if r, ok := ex.vals[v]; ok {
			if tup, isTup := v.Type().(*types.Tuple); isTup {
				for i, c := range r.Tup {
					rets = append(rets, TV{T: c.T, Ty: tup.At(i).Type()})
				}
			} else if r.P == nil {
				rets = append(rets, TV{T: r.T, Ty: v.Type()})
			}
		}
	}
	_ = vc
	// error-propagation ghost: remember that a matching callee failed
	if ex.propRe != nil && len(rets) > 0 && ex.propRe.MatchString(name) {
		last := rets[len(rets)-1]
		if last.Ty != nil && types.TypeString(last.Ty, nil) == "error" {
			cur := "false"
			if g, ok := ex.cur.ghosts["$suberr"]; ok {
				cur = g.T
			}
			n := ex.vc.define("ghost.suberr", sBool, fmt.Sprintf("(or %s (not (iface_isnil %s)))", cur, last.T))
			ex.cur.ghosts = cloneGhosts(ex.cur.ghosts)
			ex.cur.ghosts["$suberr"] = TV{T: n, Ty: tBool}
			ex.subErrSites = append(ex.subErrSites, name)
		}
	}
	ex.callSiteClauses(name, k, "after", args, rets, instr.Pos(), instr)
}

func (ex *Exec) dispatch(v ssa.Value, cc *ssa.CallCommon, instr ssa.Instruction, name string, args []TV) {
	vc := ex.vc
	if ge := vc.ctx.guardExpr; ge != "" && ex.pass == 2 {
		worldish := false
		if cal := cc.StaticCallee(); cal != nil && (deniedPrimitive(cal) || vc.ctx.worldReach[cal]) {
			worldish = true
		}
		if worldish {
			t, err := vc.entryEnv.Bool(ge)
			if err != nil {
				vc.ctx.contractErrors = append(vc.ctx.contractErrors, "effects guarded "+vc.fnName()+": "+err.Error())
			} else {
				sn := vc.snippetAt(instr.Pos(), isCallExpr)
				ex.oblig("effect.guard", "", sn, instr.Pos(), fmt.Sprintf("(=> %s (not %s))", ex.cur.guard, t), []string{ex.prop})
			}
		}
	}
	if b, ok := cc.Value.(*ssa.Builtin); ok {
		ex.builtin(v, b, cc, instr)
		return
	}
	if cc.IsInvoke() {
		if ex.nilsweep && ex.pass == 2 && mayBeNilResult(cc.Value, 0) {
			ex.panicOblig("nil", instr.Pos(), isCallExpr, fmt.Sprintf("(not (iface_isnil %s))", ex.val(cc.Value).T))
		}
		// contract keyed by "Iface.Method"
		recvT := cc.Value.Type()
		key := types.TypeString(recvT, func(p *types.Package) string {
			if p == vc.ctx.tpkg {
				return ""
			}
			return p.Name()
		}) + "." + cc.Method.Name()
		if fc := vc.ctx.cf.Funcs[key]; fc != nil {
			sig := cc.Method.Type().(*types.Signature)
			names := []string{"self"}
			for i := 0; i < sig.Params().Len(); i++ {
				n := sig.Params().At(i).Name()
				if n == "" || n == "_" {
					n = fmt.Sprintf("a%d", i)
				}
				names = append(names, n)
			}
			ex.applyContract(v, fc, key, names, args, sig, instr)
			return
		}
		if cc.Method.Pkg() != nil && cc.Method.Pkg() != vc.ctx.tpkg {
			// method declared by another package's interface (error, reflect.Type,
			// io.Reader ...): assumption A-EXT, no interpreter state is written
			if ex.pass == 2 {
				vc.externals["invoke "+key]++
			}
			if v != nil {
				ex.freshVal(v, "ext")
			}
			return
		}
		ex.havocTargets("invoke "+key, vc.ctx.modsets().graph.dispatch(cc.Value.Type(), cc.Method))
		if v != nil {
			ex.freshVal(v, "abs")
		}
		return
	}
	callee := cc.StaticCallee()
	var binds []*Val
	if callee == nil {
		cv := ex.val(cc.Value)
		if cv.Fn != nil {
			callee = cv.Fn
			binds = cv.Binds
		}
	} else if mc, ok := cc.Value.(*ssa.MakeClosure); ok {
		binds = ex.val(mc).Binds
	}
	if callee == nil {
		// dynamic call through a func value; contract keyed by the named func type
		key := "dyn " + types.TypeString(cc.Value.Type(), func(p *types.Package) string {
			if p == vc.ctx.tpkg {
				return ""
			}
			return p.Name()
		})
		if fc := vc.ctx.cf.Funcs[key]; fc != nil {
			sig := cc.Value.Type().Underlying().(*types.Signature)
			var names []string
			for i := 0; i < sig.Params().Len(); i++ {
				n := sig.Params().At(i).Name()
				if n == "" || n == "_" {
					n = fmt.Sprintf("a%d", i)
				}
				names = append(names, n)
			}
			ex.applyContract(v, fc, key, names, args, sig, instr)
			return
		}
		ex.abstractCall(v, key)
		return
	}
	inPkg := callee.Pkg == vc.ctx.pkg || (callee.Pkg == nil && callee.Parent() != nil) || (callee.Pkg == nil && recvInPkg(callee, vc.ctx.tpkg))
	if inPkg && ex.nilsweep && ex.pass == 2 && callee.Signature.Recv() != nil && len(cc.Args) > 0 && len(callee.Params) > 0 {
		// a method called on what a callee or a map handed back: if the method reaches through its
		// receiver before testing it for nil, the receiver must be non-nil here
		if _, isPtr := callee.Params[0].Type().Underlying().(*types.Pointer); isPtr && mayBeNilResult(cc.Args[0], 0) && derefsReceiverAtEntry(callee) {
			ex.panicOblig("nil", instr.Pos(), isCallExpr, fmt.Sprintf("(not (= %s 0))", ex.val(cc.Args[0]).T))
		}
	}
	if inPkg {
		cname := callee.RelString(vc.ctx.tpkg)
		if fc := vc.ctx.cf.Funcs[cname]; fc != nil {
			var names []string
			for _, p := range callee.Params {
				names = append(names, p.Name())
			}
			all := args
			for i, fv := range callee.FreeVars {
				names = append(names, fv.Name())
				t := "0"
				if i < len(binds) && binds[i].P == nil {
					t = binds[i].T
				}
				all = append(all, TV{T: t, Ty: fv.Type()})
			}
			ex.applyContract(v, fc, cname, names, all, callee.Signature, instr)
			return
		}
		ex.havocCallee(cname, callee)
		if v != nil {
			ex.freshVal(v, "abs")
		}
		return
	}
	// a library precondition stated in the contract file (e.g. reflect.SliceOf's non-nil argument)
	// is an obligation at every call site; the call itself is still modelled as a library call
	if fc := vc.ctx.cf.Funcs[callee.String()]; fc != nil {
		vars := map[string]TV{}
		for i, p := range callee.Params {
			if i < len(args) {
				vars[p.Name()] = args[i]
			}
		}
		envPre := &SpecEnv{vc: vc, vars: vars, heap: ex.cur.heap, old: ex.cur.heap}
		sn := ""
		if ex.pass == 2 {
			sn = vc.snippetAt(instr.Pos(), isCallExpr)
		}
		for _, c := range fc.clauses("requires") {
			if !hasProp(c, ex.prop) {
				continue
			}
			t, err := envPre.Bool(c.Expr)
			if err != nil {
				vc.ctx.contractError(fc, c, err)
				continue
			}
			ex.oblig("pre@call", c.Label, sn, instr.Pos(), fmt.Sprintf("(=> %s %s)", ex.cur.guard, t), []string{ex.prop})
			vc.assume(fmt.Sprintf("(=> %s %s)", ex.cur.guard, t))
		}
	}
	ex.external(v, callee, cc, args)
}

// derefsReceiverAtEntry: the method's entry block reaches through the receiver (a field access or
// a load) before any branch, i.e. before it could have tested the receiver for nil.
func derefsReceiverAtEntry(f *ssa.Function) bool {
	if len(f.Blocks) == 0 || len(f.Params) == 0 {
		return false
	}
	recv := f.Params[0]
	for _, in := range f.Blocks[0].Instrs {
		switch x := in.(type) {
		case *ssa.FieldAddr:
			if x.X == recv {
				return true
			}
		case *ssa.UnOp:
			if x.X == recv {
				return true
			}
		}
	}
	return false
}

func recvInPkg(f *ssa.Function, pkg *types.Package) bool {
	if r := f.Signature.Recv(); r != nil {
		t := r.Type()
		if p, ok := t.(*types.Pointer); ok {
			t = p.Elem()
		}
		if n, ok := t.(*types.Named); ok {
			return n.Obj().Pkg() == pkg
		}
	}
	return false
}

func (ex *Exec) abstractCall(v ssa.Value, why string) {
	ex.havocAll(why)
	if v != nil {
		ex.freshVal(v, "abs")
	}
}

func (ex *Exec) setResults(v ssa.Value, sig *types.Signature) []TV {
	res := sig.Results()
	if v == nil {
		// results are discarded by the caller (deferred call, go statement) but the
		// callee's postconditions still relate them to the state
		var out []TV
		for i := 0; i < res.Len(); i++ {
			t := ex.vc.fresh("discarded.ret", ex.vc.sortOf(res.At(i).Type()))
			ex.vc.wf(ex.cur.guard, t, res.At(i).Type(), ex.cur.heap.alloc)
			out = append(out, TV{T: t, Ty: res.At(i).Type()})
		}
		return out
	}
	var out []TV
	switch res.Len() {
	case 0:
		ex.vals[v] = &Val{T: "0"}
	case 1:
		ex.freshVal(v, "ret")
		out = append(out, TV{T: ex.vals[v].T, Ty: res.At(0).Type()})
	default:
		ex.freshVal(v, "ret")
		for i, c := range ex.vals[v].Tup {
			out = append(out, TV{T: c.T, Ty: res.At(i).Type()})
		}
	}
	return out
}

func (ex *Exec) applyContract(v ssa.Value, fc *FuncContract, cname string, names []string, args []TV, sig *types.Signature, instr ssa.Instruction) {
	vc := ex.vc
	g := ex.cur.guard
	pre := ex.cur.heap
	vars := map[string]TV{}
	for i, n := range names {
		if i < len(args) {
			vars[n] = args[i]
		}
	}
	// data-structure invariants hold for every argument in the state the callee is entered in
	for _, a := range args {
		if a.Ty != nil {
			ex.assumeTypeInv(a.T, a.Ty)
		}
	}
	envPre := &SpecEnv{vc: vc, vars: vars, heap: pre, old: pre}
	sn := ""
	if ex.pass == 2 {
		sn = vc.snippetAt(instr.Pos(), isCallExpr)
	}
	for _, c := range fc.clauses("requires") {
		t, err := envPre.Bool(c.Expr)
		if err != nil {
			vc.ctx.contractError(fc, c, err)
			continue
		}
		if !(c.TypeInv && !ex.isTypeInvOwner(c.TypeInvOf)) {
			ex.oblig("pre@call", c.Label, sn, instr.Pos(), fmt.Sprintf("(=> %s %s)", g, t), []string{ex.prop})
		}
		vc.assume(fmt.Sprintf("(=> %s %s)", g, t))
	}
	// frame
	post := pre.clone()
	ex.cur.heap = post
	switch {
	case fc.has("pure"):
	case fc.has("modifies"):
		for _, c := range fc.clauses("modifies") {
			locs, everything, err := vc.modLocs(envPre, c.Expr)
			if err != nil {
				vc.ctx.contractError(fc, c, err)
				everything = true
			}
			if everything {
				ex.havocAll("modifies-everything:" + cname)
				post = ex.cur.heap
				break
			}
			for _, l := range locs {
				es := elemSortOfArr(vc.arrSort[l.arr])
				fv := vc.fresh("mod."+sanitize(l.arr), es)
				post.set(l.arr, fmt.Sprintf("(store %s %s %s)", post.get(l.arr), l.ref, fv))
			}
		}
	default:
		ex.havocCallee("noframe:"+cname, vc.ctx.funcs[cname])
		post = ex.cur.heap
	}
	for _, c := range fc.clauses("preserves") {
		arr, refs, err := vc.preservesLoc(envPre, c.Expr)
		if err != nil {
			if strings.Contains(err.Error(), "is not used by this function") {
				continue
			}
			vc.ctx.contractError(fc, c, err)
			continue
		}
		a0, a1 := pre.get(arr), post.get(arr)
		if a0 == a1 {
			continue
		}
		q := fmt.Sprintf("|r?p%d|", vc.nfresh)
		vc.nfresh++
		var ex2 []string
		for _, r := range refs {
			ex2 = append(ex2, fmt.Sprintf("(not (= %s %s))", q, r))
		}
		vc.assume(fmt.Sprintf("(forall ((%s Int)) (! (=> (and (>= %s 0) (< %s %s) %s) (= (select %s %s) (select %s %s))) :pattern ((select %s %s))))",
			q, q, q, pre.alloc, strings.Join(ex2, " "), a1, q, a0, q, a1, q))
	}
	if post.alloc == pre.alloc {
		a := vc.fresh("alloc", "Int")
		vc.assume(fmt.Sprintf("(>= %s %s)", a, pre.alloc))
		post.alloc = a
	}
	rets := ex.setResults(v, sig)
	envPost := &SpecEnv{vc: vc, vars: map[string]TV{}, heap: post, old: pre}
	for k, tv := range vars {
		envPost.vars[k] = tv
	}
	for i, r := range rets {
		envPost.vars[fmt.Sprintf("r%d", i)] = r
		if n := sig.Results().At(i).Name(); n != "" && n != "_" {
			envPost.vars[n] = r
		}
		if i == 0 {
			envPost.vars["result"] = r
		}
	}
	ghostNames := map[string]bool{}
	for _, c := range fc.Clauses {
		if c.Kind == "ghost" {
			ghostNames[c.Name] = true
		}
	}
	for _, c := range fc.clauses("ensures") {
		// a callee postcondition is used when it is untagged, assumed, or tagged
		// with the property being checked (other properties' clauses only add
		// weight to the query; leaving assumptions out is always sound)
		if os.Getenv("ZVC_SAMEPROP") != "" && len(c.Props) > 0 && !c.Assumed && !hasProp(c, ex.prop) {
			continue
		}
		if len(ghostNames) > 0 {
			// postconditions phrased over the callee's ghost state cannot be used by callers
			usesGhost := false
			for _, id := range identRe.FindAllString(c.Expr, -1) {
				if ghostNames[id] {
					usesGhost = true
				}
			}
			if usesGhost {
				continue
			}
		}
		t, err := envPost.Bool(c.Expr)
		if err != nil {
			vc.ctx.contractError(fc, c, err)
			continue
		}
		vc.assume(fmt.Sprintf("(=> %s %s)", g, t))
	}
	if ex.pass == 2 {
		vc.calledContracts[cname]++
		if os.Getenv("ZVC_PATHCANARY") != "" {
			// diagnostic: after assuming the callee's postconditions the path must
			// still be satisfiable (contradictory contracts make everything after provable)
			o := ex.oblig("canary", "after-call."+cname, sn, instr.Pos(), fmt.Sprintf("(not %s)", g), []string{ex.prop})
			o.Canary = true
			o.Diag = true
		}
	}
}

var identRe = regexp.MustCompile(`[A-Za-z_][A-Za-z0-9_]*`)

var pureUFPkgs = map[string]bool{"strings": true, "strconv": true, "unicode": true, "unicode/utf8": true, "math": true, "bytes": true, "path": true, "path/filepath": true, "sort": false}

func (ex *Exec) external(v ssa.Value, callee *ssa.Function, cc *ssa.CallCommon, args []TV) {
	vc := ex.vc
	h := ex.cur.heap
	g := ex.cur.guard
	full := callee.String()
	if ex.pass == 2 {
		vc.externals[full]++
	}
	// a func-typed argument may be called back: everything may change
	for _, a := range cc.Args {
		if _, isFn := a.Type().Underlying().(*types.Signature); isFn {
			ex.abstractCall(v, "callback-through:"+full)
			return
		}
	}
	// direct pointer / slice arguments may be written through
	for i, a := range cc.Args {
		switch u := a.Type().Underlying().(type) {
		case *types.Pointer:
			if _, isSt := u.Elem().Underlying().(*types.Struct); isSt {
				continue // fields of external structs are never read by zygo code; zygo structs are not passed to libraries by pointer except through interfaces
			}
			av := ex.val(a)
			if av.P != nil {
				vc.storePlace(h, av.P, vc.fresh("ext.out", vc.sortOf(u.Elem())))
			} else if _, isArr := u.Elem().Underlying().(*types.Array); !isArr {
				arr := vc.cellArr(u.Elem())
				h.set(arr, fmt.Sprintf("(store %s %s %s)", h.get(arr), args[i].T, vc.fresh("ext.out", vc.sortOf(u.Elem()))))
			}
		case *types.Slice:
			if strings.HasPrefix(full, "fmt.") || strings.HasPrefix(full, "strings.") || strings.HasPrefix(full, "errors.") {
				continue
			}
			arr := vc.elemsArr(u.Elem())
			h.set(arr, fmt.Sprintf("(store %s (sarr %s) %s)", h.get(arr), args[i].T, vc.fresh("ext.elems", "(Array (_ BitVec 64) "+vc.sortOf(u.Elem())+")")))
		}
	}
	if v == nil {
		return
	}
	res := callee.Signature.Results()
	set := func(t string) { ex.setVal(v, t) }
	switch full {
	case "math.IsNaN":
		set("(fp.isNaN " + args[0].T + ")")
		return
	case "math.IsInf":
		set(fmt.Sprintf("(and (fp.isInfinite %s) (or (= %s (_ bv0 64)) (and (bvsgt %s (_ bv0 64)) (fp.isPositive %s)) (and (bvslt %s (_ bv0 64)) (fp.isNegative %s))))", args[0].T, args[1].T, args[1].T, args[0].T, args[1].T, args[0].T))
		return
	case "math.Abs":
		set("(fp.abs " + args[0].T + ")")
		return
	case "math.NaN":
		set("(_ NaN 11 53)")
		return
	case "math.Inf":
		set(fmt.Sprintf("(ite (bvsge %s (_ bv0 64)) (_ +oo 11 53) (_ -oo 11 53))", args[0].T))
		return
	case "errors.New", "fmt.Errorf":
		// a new error value: a freshly allocated object, distinct from every error that exists already
		r := ex.newRef("err")
		ex.freshVal(v, "err")
		vc.assume(fmt.Sprintf("(and (not (= (itag %s) 0)) (= (ipay %s) %s))", ex.vals[v].T, ex.vals[v].T, r))
		return
	}
	pkgPath := ""
	if callee.Pkg != nil {
		pkgPath = callee.Pkg.Pkg.Path()
	}
	if pureUFPkgs[pkgPath] && callee.Signature.Recv() == nil && res.Len() >= 1 {
		ok := true
		var sorts, as []string
		for i, a := range cc.Args {
			s := vc.sortOf(a.Type())
			if s == sSlice || s == "TUPLE" {
				ok = false
			}
			sorts = append(sorts, s)
			as = append(as, args[i].T)
		}
		if ok {
			if res.Len() == 1 {
				ex.setVal(v, vc.uf(full, sorts, vc.sortOf(res.At(0).Type()), as...))
				vc.wf(g, ex.vals[v].T, res.At(0).Type(), h.alloc)
			} else {
				r := &Val{}
				for i := 0; i < res.Len(); i++ {
					t := vc.define(v.Name()+".uf", vc.sortOf(res.At(i).Type()), vc.uf(fmt.Sprintf("%s#%d", full, i), sorts, vc.sortOf(res.At(i).Type()), as...))
					vc.wf(g, t, res.At(i).Type(), h.alloc)
					r.Tup = append(r.Tup, &Val{T: t})
				}
				ex.vals[v] = r
			}
			return
		}
	}
	ex.freshVal(v, "ext")
	// a fresh allocation may be returned
	a := vc.fresh("alloc", "Int")
	vc.assume(fmt.Sprintf("(>= %s %s)", a, h.alloc))
	h.alloc = a
}

func (ex *Exec) builtin(v ssa.Value, b *ssa.Builtin, cc *ssa.CallCommon, instr ssa.Instruction) {
	vc := ex.vc
	h := ex.cur.heap
	g := ex.cur.guard
	arg := func(i int) *Val { return ex.val(cc.Args[i]) }
	switch b.Name() {
	case "len", "cap":
		x := arg(0)
		switch u := cc.Args[0].Type().Underlying().(type) {
		case *types.Slice:
			if b.Name() == "len" {
				ex.setVal(v, "(slen "+x.T+")")
			} else {
				ex.setVal(v, "(scap "+x.T+")")
			}
		case *types.Basic:
			ex.setVal(v, "(strlen "+x.T+")")
		case *types.Map:
			_, _, ln := vc.mapArrs(u)
			ex.setVal(v, fmt.Sprintf("(select %s %s)", h.get(ln), x.T))
			vc.assume(fmt.Sprintf("(=> %s (bvsle (_ bv0 64) %s))", g, ex.vals[v].T))
		case *types.Array:
			ex.setVal(v, bvLit(uint64(u.Len()), 64))
		case *types.Pointer:
			ex.setVal(v, bvLit(uint64(u.Elem().Underlying().(*types.Array).Len()), 64))
		default:
			ex.freshVal(v, "len")
		}
	case "append":
		ex.appendCall(v, cc)
	case "copy":
		dst := arg(0)
		if st, ok := cc.Args[0].Type().Underlying().(*types.Slice); ok {
			arr := vc.elemsArr(st.Elem())
			h.set(arr, fmt.Sprintf("(store %s (sarr %s) %s)", h.get(arr), dst.T, vc.fresh("copy.elems", "(Array (_ BitVec 64) "+vc.sortOf(st.Elem())+")")))
		}
		if v != nil {
			ex.freshVal(v, "copy")
			srcLen := "(slen " + arg(1).T + ")"
			if isString(cc.Args[1].Type()) {
				srcLen = "(strlen " + arg(1).T + ")"
			}
			vc.assume(fmt.Sprintf("(=> %s (= %s (ite (bvslt (slen %s) %s) (slen %s) %s)))", g, ex.vals[v].T, dst.T, srcLen, dst.T, srcLen))
		}
	case "delete":
		m := arg(0)
		mt := cc.Args[0].Type().Underlying().(*types.Map)
		dom, _, ln := vc.mapArrs(mt)
		k := arg(1).T
		d0 := fmt.Sprintf("(select %s %s)", h.get(dom), m.T)
		h.set(ln, fmt.Sprintf("(store %s %s (ite (select %s %s) (bvsub (select %s %s) (_ bv1 64)) (select %s %s)))", h.get(ln), m.T, d0, k, h.get(ln), m.T, h.get(ln), m.T))
		h.set(dom, fmt.Sprintf("(store %s %s (store %s %s false))", h.get(dom), m.T, d0, k))
	case "print", "println":
	case "recover":
		ex.freshVal(v, "recover")
	case "min", "max":
		if bits, signed, ok := intInfo(v.Type()); ok && len(cc.Args) == 2 {
			_ = bits
			op := "bvslt"
			if !signed {
				op = "bvult"
			}
			a, c := arg(0).T, arg(1).T
			if b.Name() == "max" {
				a, c = c, a
			}
			ex.setVal(v, fmt.Sprintf("(ite (%s %s %s) %s %s)", op, arg(0).T, arg(1).T, a, c))
		} else {
			ex.freshVal(v, b.Name())
		}
	default:
		ex.noteUnsupported("builtin " + b.Name())
		if v != nil {
			ex.freshVal(v, "builtin")
		}
	}
}

func (ex *Exec) appendCall(v ssa.Value, cc *ssa.CallCommon) {
	vc := ex.vc
	h := ex.cur.heap
	g := ex.cur.guard
	s := ex.val(cc.Args[0])
	t := ex.val(cc.Args[1])
	st := cc.Args[0].Type().Underlying().(*types.Slice)
	et := st.Elem()
	es := vc.sortOf(et)
	arr := vc.elemsArr(et)
	inner := "(Array (_ BitVec 64) " + es + ")"
	if isString(cc.Args[1].Type()) {
		// append([]byte, string...)
		r := ex.newRef("app")
		h.set(arr, fmt.Sprintf("(store %s %s %s)", h.get(arr), r, vc.fresh("app.elems", inner)))
		nl := fmt.Sprintf("(bvadd (slen %s) (strlen %s))", s.T, t.T)
		ex.setVal(v, fmt.Sprintf("(mk_slice %s (_ bv0 64) %s %s)", r, nl, nl))
		return
	}
	if t.Arr1 == nil {
		// general append(s, t...): lengths exact, contents of the result unconstrained
		// (over-approximation); the argument's spare capacity may be overwritten.
		r := ex.newRef("app")
		nl := vc.define("app.len", sBV64, fmt.Sprintf("(bvadd (slen %s) (slen %s))", s.T, t.T))
		inplace := vc.define("app.inplace", sBool, fmt.Sprintf("(bvsle %s (scap %s))", nl, s.T))
		a0 := h.get(arr)
		h.set(arr, fmt.Sprintf("(ite %s (store %s (sarr %s) %s) (store %s %s %s))", inplace, a0, s.T, vc.fresh("app.elems", inner), a0, r, vc.fresh("app.elems", inner)))
		nc := vc.fresh("app.cap", sBV64)
		vc.assume(fmt.Sprintf("(and (bvsle %s %s) (bvsle %s (_ bv1099511627776 64)))", nl, nc, nc))
		ex.setVal(v, fmt.Sprintf("(ite %s (mk_slice (sarr %s) (soff %s) %s (scap %s)) (mk_slice %s (_ bv0 64) %s %s))", inplace, s.T, s.T, nl, s.T, r, nl, nc))
		// when both are nil/empty Go returns the first argument unchanged
		vc.wf(g, ex.vals[v].T, v.Type(), h.alloc)
		return
	}
	// single-element append: exact Go semantics
	x := fmt.Sprintf("(select (select %s %s) (_ bv0 64))", h.get(arr), t.Arr1.T)
	xv := vc.define("app.x", es, x)
	r := ex.newRef("app")
	inplace := vc.define("app.inplace", sBool, fmt.Sprintf("(bvslt (slen %s) (scap %s))", s.T, s.T))
	a0 := h.get(arr)
	old := fmt.Sprintf("(select %s (sarr %s))", a0, s.T)
	// copy of the prefix into the fresh array
	cp := vc.fresh("app.copy", inner)
	qi := fmt.Sprintf("|i?%d|", vc.nfresh)
	vc.nfresh++
	vc.assume(fmt.Sprintf("(forall ((%s (_ BitVec 64))) (! (=> (and (bvsle (_ bv0 64) %s) (bvslt %s (slen %s))) (= (select %s %s) (select %s (bvadd (soff %s) %s)))) :pattern ((select %s %s))))",
		qi, qi, qi, s.T, cp, qi, old, s.T, qi, cp, qi))
	cpy := fmt.Sprintf("(ite (= (soff %s) (_ bv0 64)) %s %s)", s.T, old, cp)
	nl := fmt.Sprintf("(bvadd (slen %s) (_ bv1 64))", s.T)
	nc := vc.fresh("app.cap", sBV64)
	vc.assume(fmt.Sprintf("(and (bvsle %s %s) (bvsle %s (_ bv1099511627776 64)))", nl, nc, nc))
	h.set(arr, fmt.Sprintf("(ite %s (store %s (sarr %s) (store %s (bvadd (soff %s) (slen %s)) %s)) (store %s %s (store %s (slen %s) %s)))",
		inplace, a0, s.T, old, s.T, s.T, xv, a0, r, cpy, s.T, xv))
	ex.setVal(v, fmt.Sprintf("(ite %s (mk_slice (sarr %s) (soff %s) %s (scap %s)) (mk_slice %s (_ bv0 64) %s %s))", inplace, s.T, s.T, nl, s.T, r, nl, nc))
}

// isTypeInvOwner: is the function being verified an owner of any type invariant?
// (owners must re-establish invariants explicitly before calling out)
func (ex *Exec) isTypeInvOwner(of string) bool {
	name := ex.vc.fnName()
	for _, ti := range ex.vc.ctx.cf.TypeInvs {
		if ti.Stable || ti.WritersOnly || (of != "" && ti.Type != of) {
			continue
		}
		for _, o := range ti.Owners {
			if o == name {
				return true
			}
		}
	}
	return false
}

// preservesLoc parses "Type.field [except e1, e2]".
func (vc *VC) preservesLoc(env *SpecEnv, expr string) (arr string, refs []string, err error) {
	parts := strings.SplitN(expr, " except ", 2)
	if raw := strings.TrimSpace(parts[0]); strings.HasPrefix(raw, "Elems.") || strings.HasPrefix(raw, "Cell.") {
		// a whole array by its name in the heap model, e.g. Elems.Str (string slices)
		if _, ok := vc.arrSort[raw]; !ok {
			return "", nil, fmt.Errorf("preserves: heap array %s is not used by this function", raw)
		}
		return raw, nil, nil
	}
	tf := strings.SplitN(strings.TrimSpace(parts[0]), ".", 2)
	if len(tf) != 2 {
		return "", nil, fmt.Errorf("preserves Type.field [except ...]")
	}
	o := vc.ctx.tpkg.Scope().Lookup(tf[0])
	if o == nil {
		return "", nil, fmt.Errorf("preserves: unknown type %s", tf[0])
	}
	st, ok := o.Type().Underlying().(*types.Struct)
	if !ok {
		return "", nil, fmt.Errorf("preserves: %s is not a struct", tf[0])
	}
	fi := findField(st, tf[1])
	if fi < 0 {
		return "", nil, fmt.Errorf("preserves: no field %s", tf[1])
	}
	arr = vc.fieldArr(vc.structName(o.Type(), st), st.Field(fi))
	if len(parts) == 2 {
		old := *env
		old.inOld = true
		for _, e := range splitTop(parts[1], ',') {
			tv, e2 := old.Any(strings.TrimSpace(e))
			if e2 != nil {
				return "", nil, e2
			}
			refs = append(refs, tv.T)
		}
	}
	return arr, refs, nil
}
