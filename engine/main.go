package main

import (
	"flag"
	"fmt"
	"go/ast"
	"go/token"
	"go/types"
	"os"
	"regexp"
	"sort"
	"strings"

	"golang.org/x/tools/go/packages"
	"golang.org/x/tools/go/ssa"
	"golang.org/x/tools/go/ssa/ssautil"
)

type Ctx struct {
	prog  *ssa.Program
	pkg   *ssa.Package
	tpkg  *types.Package
	fset  *token.FileSet
	files []*ast.File
	ppkg  *packages.Package
	cf    *ContractFile
	funcs map[string]*ssa.Function // RelString -> function

	tags               map[string]int
	tagTypes           map[int]types.Type
	usedIfaces         map[string]*types.Interface
	globals            map[string]int
	immutableGlobals   map[*ssa.Global]bool
	uniqueAllocGlobals map[*ssa.Global]bool
	usedUnique         map[string]bool
	usedUniqueErr      map[string]bool
	contractErrors     []string
	errGlobals         map[*ssa.Global]bool
	mod                *modInfo
	worldReach         map[*ssa.Function]bool             // functions that can reach a denied primitive
	guardExpr          string                             // while verifying an "effects guarded" function: its guard expression
	constInit          map[*ssa.Global]map[int]*ssa.Const // immutable struct globals: field index -> constant stored by init (-1 = whole scalar)
	stableArr          map[string]bool                    // heap arrays of fields declared stable (written only by their constructors)
	allFuncs           map[*ssa.Function]bool
}

func (c *Ctx) contractError(fc *FuncContract, cl *Clause, err error) {
	msg := fmt.Sprintf("contract error: func %s (contract line %d): %v", fc.Name, cl.Line, err)
	for _, m := range c.contractErrors {
		if m == msg {
			return
		}
	}
	c.contractErrors = append(c.contractErrors, msg)
}

func loadCtx(repo, contracts string) (*Ctx, error) {
	cfg := &packages.Config{Mode: packages.LoadAllSyntax, Dir: repo, BuildFlags: []string{"-tags=verif"},
		Env: append(os.Environ(), "GOFLAGS=-mod=mod", "GOPROXY=off")}
	pkgs, err := packages.Load(cfg, "./zygo")
	if err != nil {
		return nil, err
	}
	if len(pkgs) != 1 {
		return nil, fmt.Errorf("expected one package, got %d", len(pkgs))
	}
	if len(pkgs[0].Errors) > 0 {
		return nil, fmt.Errorf("package errors: %v", pkgs[0].Errors)
	}
	prog, spkgs := ssautil.AllPackages(pkgs, ssa.InstantiateGenerics|ssa.GlobalDebug)
	prog.Build()
	c := &Ctx{prog: prog, pkg: spkgs[0], tpkg: pkgs[0].Types, fset: pkgs[0].Fset, files: pkgs[0].Syntax, ppkg: pkgs[0],
		funcs: map[string]*ssa.Function{}, tags: map[string]int{}, tagTypes: map[int]types.Type{}, usedIfaces: map[string]*types.Interface{},
		globals: map[string]int{}, immutableGlobals: map[*ssa.Global]bool{}, uniqueAllocGlobals: map[*ssa.Global]bool{}, usedUnique: map[string]bool{}, usedUniqueErr: map[string]bool{}, errGlobals: map[*ssa.Global]bool{}, constInit: map[*ssa.Global]map[int]*ssa.Const{}, stableArr: map[string]bool{}}
	c.allFuncs = ssautil.AllFunctions(prog)
	for f := range c.allFuncs {
		if f.Pkg == c.pkg || (f.Pkg == nil && (recvInPkg(f, c.tpkg) || (f.Parent() != nil && f.Parent().Pkg == c.pkg))) {
			if f.Synthetic != "" && f.Blocks == nil {
				continue
			}
			name := f.RelString(c.tpkg)
			if old, ok := c.funcs[name]; ok && old.Synthetic == "" {
				continue
			}
			c.funcs[name] = f
		}
	}
	// stable tag numbering: all named types of the package and their pointers, sorted
	var names []string
	for _, n := range c.tpkg.Scope().Names() {
		if tn, ok := c.tpkg.Scope().Lookup(n).(*types.TypeName); ok && !tn.IsAlias() {
			names = append(names, n)
		}
	}
	sort.Strings(names)
	for _, n := range names {
		t := c.tpkg.Scope().Lookup(n).Type()
		if _, isI := t.Underlying().(*types.Interface); isI {
			continue
		}
		c.tagOf(t)
		c.tagOf(types.NewPointer(t))
	}
	c.scanGlobals()
	cf, err := parseContracts(contracts)
	if err != nil {
		return nil, err
	}
	c.cf = cf
	for _, ca := range cf.ClauseAll {
		re, err := regexp.Compile("^(" + ca.Re + ")$")
		if err != nil {
			return nil, fmt.Errorf("clauseall line %d: %v", ca.Line, err)
		}
		var names []string
		for name, fn := range c.funcs {
			if re.MatchString(name) && fn.Blocks != nil {
				names = append(names, name)
			}
		}
		sort.Strings(names)
		var lines []string
		var nos []int
		for _, name := range names {
			lines = append(lines, "func "+name, ca.Clause)
			nos = append(nos, ca.Line, ca.Line)
		}
		if err := processContractLines(cf, lines, nos); err != nil {
			return nil, err
		}
	}
	// "ensuresall": one postcondition for every function whose name matches
	for _, ea := range cf.EnsuresAll {
		re, err := regexp.Compile("^(" + ea.Re + ")$")
		if err != nil {
			return nil, fmt.Errorf("ensuresall line %d: %v", ea.Line, err)
		}
		var names []string
		for name, fn := range c.funcs {
			if re.MatchString(name) && fn.Blocks != nil {
				names = append(names, name)
			}
		}
		sort.Strings(names)
		for _, name := range names {
			fc := cf.Funcs[name]
			if fc == nil {
				fc = &FuncContract{Name: name}
				cf.Funcs[name] = fc
				cf.Order = append(cf.Order, name)
			}
			if ea.Invariant {
				fc.Clauses = append(fc.Clauses, &Clause{Kind: "invariant", Props: []string{ea.Prop}, Label: ea.Label, Expr: ea.Expr, Loop: -2, Line: ea.Line})
			} else {
				fc.Clauses = append(fc.Clauses, &Clause{Kind: "ensures", Props: []string{ea.Prop}, Label: ea.Label, Expr: ea.Expr, Loop: -1, Line: ea.Line})
			}
		}
	}
	for _, ti := range cf.TypeInvs {
		if ti.Stable && !ti.WritersOnly {
			for _, f := range ti.Fields {
				c.stableArr["H."+ti.Type+"."+f] = true
			}
		}
	}
	return c, nil
}

// scanGlobals finds package-level variables that are written only by package
// initialisation (immutable), and among those the ones initialised with their
// own allocation (pairwise distinct, non-nil).
func (c *Ctx) scanGlobals() {
	mutable := map[*ssa.Global]bool{}
	initAlloc := map[*ssa.Global]int{}
	for f := range c.allFuncs {
		isInit := f.Name() == "init" || strings.HasPrefix(f.Name(), "init#")
		for _, b := range f.Blocks {
			for _, in := range b.Instrs {
				if st, ok := in.(*ssa.Store); ok {
					if fa, ok := st.Addr.(*ssa.FieldAddr); ok && isInit {
						if g, ok := fa.X.(*ssa.Global); ok && f.Pkg == g.Pkg {
							if cv, isC := st.Val.(*ssa.Const); isC {
								if c.constInit[g] == nil {
									c.constInit[g] = map[int]*ssa.Const{}
								}
								if _, dup := c.constInit[g][fa.Field]; dup {
									c.constInit[g][fa.Field] = nil
								} else {
									c.constInit[g][fa.Field] = cv
								}
							} else {
								if c.constInit[g] == nil {
									c.constInit[g] = map[int]*ssa.Const{}
								}
								c.constInit[g][fa.Field] = nil
							}
						}
					}
					if g, ok := st.Addr.(*ssa.Global); ok {
						if cv, isC := st.Val.(*ssa.Const); isC && isInit && f.Pkg == g.Pkg {
							if c.constInit[g] == nil {
								c.constInit[g] = map[int]*ssa.Const{-1: cv}
							} else {
								c.constInit[g][-1] = nil
							}
						}
						if !isInit || f.Pkg != g.Pkg {
							mutable[g] = true
						} else {
							if _, isAlloc := st.Val.(*ssa.Alloc); isAlloc {
								initAlloc[g]++
							} else if call, isCall := st.Val.(*ssa.Call); isCall && call.Common().StaticCallee() != nil &&
								(call.Common().StaticCallee().String() == "errors.New" || call.Common().StaticCallee().String() == "fmt.Errorf") {
								initAlloc[g]++
								c.errGlobals[g] = true
							} else {
								initAlloc[g] += 100
							}
						}
						continue
					}
				}
				// address escapes?
				for _, op := range in.Operands(nil) {
					if op == nil || *op == nil {
						continue
					}
					if g, ok := (*op).(*ssa.Global); ok {
						switch x := in.(type) {
						case *ssa.FieldAddr:
							if isInit && f.Pkg == g.Pkg {
								onlyStores := true
								for _, r := range *x.Referrers() {
									if st, ok := r.(*ssa.Store); !ok || st.Addr != x {
										if _, isDbg := r.(*ssa.DebugRef); !isDbg {
											onlyStores = false
										}
									}
								}
								if onlyStores {
									continue
								}
							}
						case *ssa.DebugRef:
							continue
						case *ssa.UnOp:
							if x.Op == token.MUL {
								continue
							}
						case *ssa.Store:
							if x.Addr == g {
								continue
							}
						}
						mutable[g] = true
					}
				}
			}
		}
	}
	for _, p := range c.prog.AllPackages() {
		for _, m := range p.Members {
			if g, ok := m.(*ssa.Global); ok && !mutable[g] {
				c.immutableGlobals[g] = true
				if initAlloc[g] == 1 {
					c.uniqueAllocGlobals[g] = true
				}
			}
		}
	}
}

func (c *Ctx) newVC(fn *ssa.Function, fc *FuncContract) *VC {
	if fc == nil {
		fc = &FuncContract{Name: fn.RelString(c.tpkg)}
	}
	so := map[string]bool{}
	name := fn.RelString(c.tpkg)
	for _, ti := range c.cf.TypeInvs {
		if !ti.Stable {
			continue
		}
		for _, o := range ti.Owners {
			if o == name || (fn.Parent() != nil && fn.Parent().RelString(c.tpkg) == o) {
				for _, f := range ti.Fields {
					so["H."+ti.Type+"."+f] = true
				}
			}
		}
	}
	// a function that itself initialises a stable field (on objects it allocates)
	// must see its own writes: model the field with ordinary versions there
	for _, b := range fn.Blocks {
		for _, in := range b.Instrs {
			if st, ok := in.(*ssa.Store); ok {
				if T, f, ok := fieldOfLoad(st.Addr); ok && c.stableArr["H."+T+"."+f] {
					so["H."+T+"."+f] = true
				}
			}
		}
	}
	return &VC{ctx: c, fn: fn, fc: fc, declSet: map[string]bool{}, arrSort: map[string]string{}, snipCnt: map[string]int{},
		abstracted: map[string]int{}, strlits: map[string]string{}, calledContracts: map[string]int{}, externals: map[string]int{}, usedTypeInvs: map[string]bool{}, stableOwner: so, arrBound: map[string]string{}}
}

// verifyFunc builds the VC of fn for property prop and returns it.
func (c *Ctx) verifyFunc(fn *ssa.Function, fc *FuncContract, prop string, forceNopanic bool) (vc *VC, err error) {
	defer func() {
		if r := recover(); r != nil {
			if se, ok := r.(specErr); ok {
				err = fmt.Errorf("%s", se.msg)
				return
			}
			panic(r)
		}
	}()
	nopanic, nonil := forceNopanic, false
	for _, cl := range fc.clauses("nopanic") {
		if hasProp(cl, prop) {
			nopanic = true
		}
	}
	for _, cl := range fc.clauses("nonil") {
		if hasProp(cl, prop) {
			nonil = true
		}
	}
	// pass 1: discover loop-written heap arrays
	vc1 := c.newVC(fn, fc)
	vc1.fpUF = fc.has("fparith")
	ex1 := &Exec{vc: vc1, fn: fn, prop: prop, pass: 1, nopanic: false}
	ex1.indexCalls()
	vc1.onWrite = func(name string) {
		for _, l := range ex1.inLoops[ex1.curBlk] {
			l.writes[name] = true
		}
	}
	ex1.run()
	vc = c.newVC(fn, fc)
	vc.fpUF = fc.has("fparith")
	for k, v := range vc1.arrSort {
		vc.arrSort[k] = v
	}
	ex := &Exec{vc: vc, fn: fn, prop: prop, pass: 2, nopanic: nopanic, nonil: nonil, nilsweep: forceNopanic && c.cf.NilSweep[prop]}
	ex.indexCalls()
	ex.preLoops = ex1.loops
	ex.run()
	return vc, nil
}

func main() {
	if len(os.Args) < 2 {
		fmt.Fprintln(os.Stderr, "usage: zvc <check|dump|list> ...")
		os.Exit(2)
	}
	switch os.Args[1] {
	case "dump":
		fs := flag.NewFlagSet("dump", flag.ExitOnError)
		repo := fs.String("repo", "/repo", "repository")
		contracts := fs.String("contracts", "/repo/zygo/zz_contracts_verif.go", "contract file")
		prop := fs.String("prop", "", "property")
		run := fs.Bool("run", false, "run solvers")
		outdir := fs.String("out", "/tmp/zvc-dump", "script directory")
		fs.Parse(os.Args[2:])
		c, err := loadCtx(*repo, *contracts)
		if err != nil {
			fmt.Fprintln(os.Stderr, err)
			os.Exit(2)
		}
		os.MkdirAll(*outdir, 0o755)
		for _, name := range fs.Args() {
			fn := c.funcs[name]
			if fn == nil {
				fmt.Println("no such function:", name)
				continue
			}
			vc, err := c.verifyFunc(fn, c.cf.Funcs[name], *prop, false)
			if err != nil {
				fmt.Println("error:", err)
				continue
			}
			fmt.Printf("== %s: %d obligations, %d body lines, warnings=%v unsupported=%v abstracted=%v\n", name, len(vc.obls), len(vc.body), vc.warnings, vc.unsupported, vc.abstracted)
			if *run {
				dischargeAll(vc.obls, *outdir, 10, false, 16)
			}
			for _, o := range vc.obls {
				fmt.Printf("  %-8s %-7s %5.2fs %s  (%s)\n", o.Status, o.Solver, o.TimeS, o.Name, o.Pos)
			}
		}
		for _, e := range c.contractErrors {
			fmt.Println(e)
		}
	case "check":
		os.Exit(cmdCheck(os.Args[2:]))
	case "mutants":
		os.Exit(cmdMutants(os.Args[2:]))
	default:
		fmt.Fprintln(os.Stderr, "unknown command")
		os.Exit(2)
	}
}
