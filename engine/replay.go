package main

// replay.go: turn a solver model into concrete inputs, run the REAL function
// from /repo on them (in-package test injected with go test -overlay; nothing
// is written into the repository) and compare what the real code returns with
// what the encoding predicted for that model.  If they agree, the violation of
// the contract is confirmed on the real code.

import (
	"bytes"
	"context"
	"encoding/json"
	"fmt"
	"go/types"
	"math"
	"os"
	"os/exec"
	"path/filepath"
	"regexp"
	"strconv"
	"strings"
	"time"
)

type ReplayResult struct {
	Attempted  bool              `json:"attempted"`
	Reproduced bool              `json:"reproduced"`
	Why        string            `json:"why,omitempty"`
	Inputs     map[string]string `json:"inputs,omitempty"`
	Predicted  map[string]string `json:"predicted_results,omitempty"`
	Actual     map[string]string `json:"actual_results,omitempty"`
	TestSource string            `json:"test_source,omitempty"`
	TestOutput string            `json:"test_output,omitempty"`
}

type mvQuery struct {
	key  string
	term string
	sort string
}

// getValues re-runs z3-new on the obligation's script asking for the values of terms.
func getValues(o *Obligation, dir string, qs []mvQuery) (map[string]string, error) {
	var b strings.Builder
	b.WriteString(strings.TrimSuffix(strings.TrimSuffix(o.script(false), "(check-sat)\n"), "\n"))
	b.WriteString("\n")
	for i, q := range qs {
		fmt.Fprintf(&b, "(declare-const |mv!%d| %s)\n(assert (= |mv!%d| %s))\n", i, q.sort, i, q.term)
	}
	b.WriteString("(check-sat)\n")
	for i := range qs {
		fmt.Fprintf(&b, "(get-value (|mv!%d|))\n", i)
	}
	file := filepath.Join(dir, sanitizeFile(o.Name)+".model.smt2")
	os.WriteFile(file, []byte(b.String()), 0o644)
	r := runSolver(context.Background(), solvers[0], file, 20)
	if r.status != "sat" {
		r = runSolver(context.Background(), solvers[1], file, 20)
	}
	if r.status != "sat" {
		return nil, fmt.Errorf("model query returned %s", r.status)
	}
	out := map[string]string{}
	re := regexp.MustCompile(`(?s)\(\(\|mv!(\d+)\|\s+(.*?)\)\)\s*(?:\n|$)`)
	for _, m := range re.FindAllStringSubmatch(r.out, -1) {
		i, _ := strconv.Atoi(m[1])
		if i < len(qs) {
			out[qs[i].key] = strings.TrimSpace(m[2])
		}
	}
	return out, nil
}

func parseBV(v string) (uint64, bool) {
	v = strings.TrimSpace(v)
	if strings.HasPrefix(v, "#x") {
		u, err := strconv.ParseUint(v[2:], 16, 64)
		return u, err == nil
	}
	if strings.HasPrefix(v, "#b") {
		u, err := strconv.ParseUint(v[2:], 2, 64)
		return u, err == nil
	}
	if m := regexp.MustCompile(`^\(_ bv(\d+) \d+\)$`).FindStringSubmatch(v); m != nil {
		u, err := strconv.ParseUint(m[1], 10, 64)
		return u, err == nil
	}
	return 0, false
}

func parseInt(v string) (int64, bool) {
	v = strings.TrimSpace(v)
	if m := regexp.MustCompile(`^\(-\s*(\d+)\)$`).FindStringSubmatch(v); m != nil {
		i, err := strconv.ParseInt(m[1], 10, 64)
		return -i, err == nil
	}
	i, err := strconv.ParseInt(v, 10, 64)
	return i, err == nil
}

// parseFP returns the IEEE bits of an SMT double value.
func parseFP(v string) (uint64, bool) {
	v = strings.TrimSpace(v)
	switch {
	case strings.HasPrefix(v, "(_ NaN"):
		return math.Float64bits(math.NaN()), true
	case strings.HasPrefix(v, "(_ +oo"):
		return math.Float64bits(math.Inf(1)), true
	case strings.HasPrefix(v, "(_ -oo"):
		return math.Float64bits(math.Inf(-1)), true
	case strings.HasPrefix(v, "(_ +zero"):
		return 0, true
	case strings.HasPrefix(v, "(_ -zero"):
		return 1 << 63, true
	}
	m := regexp.MustCompile(`^\(fp\s+(\S+)\s+(\S+)\s+(\S+)\)$`).FindStringSubmatch(v)
	if m == nil {
		return 0, false
	}
	s, ok1 := parseBV(m[1])
	e, ok2 := parseBV(m[2])
	f, ok3 := parseBV(m[3])
	if !ok1 || !ok2 || !ok3 {
		return 0, false
	}
	return s<<63 | e<<52 | f, true
}

type argBuilder struct {
	c       *Ctx
	vc      *VC
	queries []mvQuery
	// construction plan executed after values are known
}

func isSimple(t types.Type) bool {
	if _, _, ok := intInfo(t); ok {
		return true
	}
	if isFloat(t) {
		return true
	}
	if b, ok := t.Underlying().(*types.Basic); ok && b.Info()&types.IsBoolean != 0 {
		return true
	}
	return false
}

func goLit(t types.Type, v string, qual func(types.Type) string) (string, bool) {
	if bits, signed, ok := intInfo(t); ok {
		u, ok2 := parseBV(v)
		if !ok2 {
			return "", false
		}
		if signed {
			var i int64
			switch bits {
			case 64:
				i = int64(u)
			case 32:
				i = int64(int32(u))
			case 16:
				i = int64(int16(u))
			default:
				i = int64(int8(u))
			}
			return fmt.Sprintf("%s(%d)", qual(t), i), true
		}
		return fmt.Sprintf("%s(%d)", qual(t), u), true
	}
	if isFloat(t) {
		b, ok := parseFP(v)
		if !ok {
			return "", false
		}
		return fmt.Sprintf("%s(math.Float64frombits(0x%x))", qual(t), b), true
	}
	if v == "true" || v == "false" {
		return v, true
	}
	return "", false
}

func (c *Ctx) typeQual(t types.Type) string {
	return types.TypeString(t, func(p *types.Package) string {
		if p == c.tpkg {
			return ""
		}
		return p.Name()
	})
}

// replay implements the generic replay for functions whose inputs are scalars,
// pointers to structs with scalar fields, and interface values holding those.
func (c *Ctx) replay(o *Obligation, dir string, opts checkOpts) ReplayResult {
	rr := ReplayResult{}
	vc := o.vc
	fn := vc.fn
	if fn.Parent() != nil || len(fn.FreeVars) > 0 {
		rr.Why = "closure: generic replay not available"
		return rr
	}
	h0 := vc.entryHeap
	var qs []mvQuery
	add := func(key, term, sort string) { qs = append(qs, mvQuery{key, term, sort}) }
	type pinfo struct {
		name string
		t    types.Type
	}
	var ps []pinfo
	for _, p := range fn.Params {
		ps = append(ps, pinfo{p.Name(), p.Type()})
	}
	structFields := func(prefix, ref string, t types.Type) {
		st := t.Underlying().(*types.Struct)
		for i := 0; i < st.NumFields(); i++ {
			f := st.Field(i)
			if !isSimple(f.Type()) {
				continue
			}
			arr := "H." + vc.structName(t, st) + "." + f.Name()
			if _, ok := vc.arrSort[arr]; !ok {
				continue
			}
			add(prefix+"."+f.Name(), fmt.Sprintf("(select %s %s)", h0.get(arr), ref), vc.sortOf(f.Type()))
		}
	}
	// candidate dynamic types for interface parameters: pointer-to-struct tags
	for _, p := range ps {
		term := "|p." + p.name + "|"
		switch u := p.t.Underlying().(type) {
		case *types.Pointer:
			if _, ok := u.Elem().Underlying().(*types.Struct); ok {
				structFields(p.name, term, u.Elem())
			}
		case *types.Interface:
			add(p.name+"#tag", "(itag "+term+")", "Int")
			for tag, tt := range c.tagTypes {
				if pt, ok := tt.Underlying().(*types.Pointer); ok {
					if _, ok := pt.Elem().Underlying().(*types.Struct); ok {
						structFields(fmt.Sprintf("%s#%d", p.name, tag), "(ipay "+term+")", pt.Elem())
					}
				}
			}
		default:
			if isSimple(p.t) {
				add(p.name, term, vc.sortOf(p.t))
			}
		}
	}
	res := fn.Signature.Results()
	for i := 0; i < res.Len(); i++ {
		n := fmt.Sprintf("|ret%d", i)
		// find the defined name of the merged result
		for _, mt := range vc.modelTerms {
			if strings.HasPrefix(mt, n+"!") || mt == n+"|" {
				rt := res.At(i).Type()
				if isSimple(rt) {
					add(fmt.Sprintf("ret%d", i), mt, vc.sortOf(rt))
				} else if vc.sortOf(rt) == sIface {
					add(fmt.Sprintf("ret%d#tag", i), "(itag "+mt+")", "Int")
				}
			}
		}
	}
	vals, err := getValues(o, dir, qs)
	if err != nil {
		rr.Why = "could not extract model values: " + err.Error()
		return rr
	}
	rr.Inputs = map[string]string{}
	rr.Predicted = map[string]string{}
	for k, v := range vals {
		if strings.HasPrefix(k, "ret") {
			rr.Predicted[k] = v
		} else {
			rr.Inputs[k] = v
		}
	}
	qual := func(t types.Type) string { return c.typeQual(t) }
	// build argument expressions
	var args []string
	buildStruct := func(prefix string, t types.Type) (string, bool) {
		st := t.Underlying().(*types.Struct)
		var fs []string
		for i := 0; i < st.NumFields(); i++ {
			f := st.Field(i)
			v, ok := vals[prefix+"."+f.Name()]
			if !ok {
				continue
			}
			lit, ok := goLit(f.Type(), v, qual)
			if !ok {
				return "", false
			}
			fs = append(fs, f.Name()+": "+lit)
		}
		return "&" + qual(t) + "{" + strings.Join(fs, ", ") + "}", true
	}
	for _, p := range ps {
		switch u := p.t.Underlying().(type) {
		case *types.Pointer:
			if n, ok := u.Elem().(*types.Named); ok && n.Obj().Name() == "Zlisp" {
				args = append(args, "NewZlisp()")
				continue
			}
			if _, ok := u.Elem().Underlying().(*types.Struct); ok {
				e, ok := buildStruct(p.name, u.Elem())
				if !ok {
					rr.Why = "parameter " + p.name + ": unsupported field value"
					return rr
				}
				args = append(args, e)
				continue
			}
			rr.Why = "parameter " + p.name + ": unsupported pointer type"
			return rr
		case *types.Interface:
			tagV, ok := parseInt(vals[p.name+"#tag"])
			if !ok {
				rr.Why = "no tag value for " + p.name
				return rr
			}
			if tagV == 0 {
				args = append(args, "nil")
				continue
			}
			tt := c.tagTypes[int(tagV)]
			if tt == nil {
				rr.Why = fmt.Sprintf("parameter %s: model uses an unknown dynamic type (tag %d)", p.name, tagV)
				return rr
			}
			pt, ok := tt.Underlying().(*types.Pointer)
			if !ok {
				rr.Why = "parameter " + p.name + ": dynamic type " + tt.String() + " not supported by the generic replay"
				return rr
			}
			if _, ok := pt.Elem().Underlying().(*types.Struct); !ok {
				rr.Why = "parameter " + p.name + ": dynamic type not a struct pointer"
				return rr
			}
			e, ok := buildStruct(fmt.Sprintf("%s#%d", p.name, tagV), pt.Elem())
			if !ok {
				rr.Why = "parameter " + p.name + ": unsupported field value"
				return rr
			}
			args = append(args, e)
		default:
			v, ok := vals[p.name]
			if !ok {
				rr.Why = "parameter " + p.name + ": type " + p.t.String() + " not supported by the generic replay"
				return rr
			}
			lit, ok := goLit(p.t, v, qual)
			if !ok {
				rr.Why = "parameter " + p.name + ": cannot build literal from " + v
				return rr
			}
			args = append(args, lit)
		}
	}
	// call expression
	var call string
	if fn.Signature.Recv() != nil {
		call = fmt.Sprintf("(%s).%s(%s)", args[0], fn.Name(), strings.Join(args[1:], ", "))
	} else {
		call = fmt.Sprintf("%s(%s)", fn.Name(), strings.Join(args, ", "))
	}
	var lhs, prints []string
	for i := 0; i < res.Len(); i++ {
		lhs = append(lhs, fmt.Sprintf("r%d", i))
		rt := res.At(i).Type()
		switch {
		case isFloat(rt):
			prints = append(prints, fmt.Sprintf(`fmt.Printf("ZVC-RESULT ret%d=0x%%x\n", math.Float64bits(float64(r%d)))`, i, i))
		case isSimple(rt):
			prints = append(prints, fmt.Sprintf(`fmt.Printf("ZVC-RESULT ret%d=%%v\n", r%d)`, i, i))
		case vc.sortOf(rt) == sIface:
			prints = append(prints, fmt.Sprintf(`fmt.Printf("ZVC-RESULT ret%d#nil=%%v\n", r%d == nil)`, i, i))
		default:
			prints = append(prints, fmt.Sprintf("_ = r%d", i))
		}
	}
	assign := ""
	if len(lhs) > 0 {
		assign = strings.Join(lhs, ", ") + " := "
	}
	src := fmt.Sprintf(`package zygo

import (
	"fmt"
	"math"
	"testing"
)

var _ = math.Float64bits
var _ = fmt.Sprintf

func TestZvcReplay(t *testing.T) {
	defer func() {
		if r := recover(); r != nil {
			fmt.Printf("ZVC-RESULT panic=%%v\n", r)
		}
	}()
	%s%s
	%s
}
`, assign, call, strings.Join(prints, "\n\t"))
	rr.TestSource = src
	rr.Attempted = true
	out, err := runOverlayTest(opts.repo, dir, src, "TestZvcReplay")
	rr.TestOutput = truncate(out, 4000)
	if err != nil && !strings.Contains(out, "ZVC-RESULT") {
		rr.Why = "replay test did not run: " + err.Error()
		return rr
	}
	rr.Actual = map[string]string{}
	for _, l := range strings.Split(out, "\n") {
		if strings.HasPrefix(l, "ZVC-RESULT ") {
			kv := strings.SplitN(strings.TrimPrefix(l, "ZVC-RESULT "), "=", 2)
			if len(kv) == 2 {
				rr.Actual[kv[0]] = kv[1]
			}
		}
	}
	if p, ok := rr.Actual["panic"]; ok {
		rr.Reproduced = strings.HasPrefix(o.Kind, "panic")
		rr.Why = "real code panicked: " + p
		return rr
	}
	if strings.HasPrefix(o.Kind, "panic") {
		rr.Why = "real code did not panic on the model's inputs"
		return rr
	}
	// compare predicted with actual
	agree := true
	compared := 0
	for i := 0; i < res.Len(); i++ {
		rt := res.At(i).Type()
		key := fmt.Sprintf("ret%d", i)
		switch {
		case isFloat(rt):
			pb, ok := parseFP(rr.Predicted[key])
			av := rr.Actual[key]
			if ok && av != "" {
				compared++
				a, _ := strconv.ParseUint(strings.TrimPrefix(av, "0x"), 16, 64)
				if a != pb && !(math.IsNaN(math.Float64frombits(a)) && math.IsNaN(math.Float64frombits(pb))) {
					agree = false
				}
			}
		case isSimple(rt):
			pv, ok := rr.Predicted[key]
			av := rr.Actual[key]
			if ok && av != "" {
				compared++
				if lit, ok2 := goLit(rt, pv, func(types.Type) string { return "" }); ok2 {
					if strings.Trim(lit, "()") != av {
						agree = false
					}
				}
			}
		case vc.sortOf(rt) == sIface:
			pv, ok := parseInt(rr.Predicted[key+"#tag"])
			av := rr.Actual[key+"#nil"]
			if ok && av != "" {
				compared++
				if (pv == 0) != (av == "true") {
					agree = false
				}
			}
		}
	}
	if compared == 0 {
		rr.Why = "no comparable results"
		return rr
	}
	if agree {
		rr.Reproduced = true
		rr.Why = "the real function returned exactly what the encoding predicted for the model's inputs; those results violate the contract clause"
	} else {
		rr.Why = "the real function's results differ from the encoding's prediction (model relies on an abstraction); not confirmed"
	}
	return rr
}

// runOverlayTest compiles src as an extra in-package test file of /repo/zygo
// through go test -overlay (nothing is written into the repository).
func runOverlayTest(repo, dir, src, run string) (string, error) {
	tf := filepath.Join(dir, "zz_zvc_replay_test.go")
	if err := os.WriteFile(tf, []byte(src), 0o644); err != nil {
		return "", err
	}
	ov := map[string]map[string]string{"Replace": {filepath.Join(repo, "zygo", "zz_zvc_replay_test.go"): tf}}
	ob, _ := json.Marshal(ov)
	of := filepath.Join(dir, "overlay.json")
	os.WriteFile(of, ob, 0o644)
	ctx, cancel := context.WithTimeout(context.Background(), 240*time.Second)
	defer cancel()
	cmd := exec.CommandContext(ctx, "go", "test", "-overlay", of, "-vet=off", "-count=1", "-v", "-timeout", "60s", "-run", "^"+run+"$", "./zygo")
	cmd.Dir = repo
	cmd.Env = append(os.Environ(), "GOFLAGS=-mod=mod", "GOPROXY=off")
	var out bytes.Buffer
	cmd.Stdout = &out
	cmd.Stderr = &out
	err := cmd.Run()
	return out.String(), err
}
