package main

// modref.go: a may-write (mod) analysis over the SSA call graph.  For every
// function it computes the set of heap arrays (in the VC's naming: one array
// per struct field, per cell sort, per slice-element sort, per map type) that
// the function or anything it can reach may write.  An abstracted call then
// havocs only those arrays instead of the whole heap.  The call graph is the
// over-approximation used for the effect scan: static calls, closure creation,
// function-value references and interface dispatch.

import (
	"go/token"
	"go/types"
	"strings"

	"golang.org/x/tools/go/ssa"
)

type modInfo struct {
	direct    map[*ssa.Function]map[string]bool
	all       map[*ssa.Function]bool // may write anything (reflection, unsafe, unknown dynamic calls)
	closed    map[*ssa.Function]map[string]bool
	closedAll map[*ssa.Function]bool
	graph     *effGraph
	namer     *VC
	names     []string
	bits      map[*ssa.Function][]uint64
	allBits   map[*ssa.Function]bool
}

func (c *Ctx) modsets() *modInfo {
	if c.mod != nil {
		return c.mod
	}
	var any *ssa.Function
	for _, f := range c.funcs {
		if f.Blocks != nil {
			any = f
			break
		}
	}
	m := &modInfo{direct: map[*ssa.Function]map[string]bool{}, all: map[*ssa.Function]bool{}, closed: map[*ssa.Function]map[string]bool{}, closedAll: map[*ssa.Function]bool{}}
	m.namer = c.newVC(any, nil)
	m.graph = c.buildEffGraph()
	for f := range c.allFuncs {
		if !c.inScope(f) || f.Blocks == nil {
			continue
		}
		m.scan(c, f)
	}
	c.mod = m
	return m
}

func (m *modInfo) add(f *ssa.Function, name string) {
	if m.direct[f] == nil {
		m.direct[f] = map[string]bool{}
	}
	m.direct[f][name] = true
}

// rootArrays: heap arrays a store through addr may write
func (m *modInfo) rootArrays(addr ssa.Value) (names []string, everything bool) {
	vc := m.namer
	switch a := addr.(type) {
	case *ssa.FieldAddr:
		switch a.X.(type) {
		case *ssa.FieldAddr, *ssa.IndexAddr:
			return m.rootArrays(a.X)
		}
		pt, ok := a.X.Type().Underlying().(*types.Pointer)
		if !ok {
			return nil, true
		}
		st, ok := pt.Elem().Underlying().(*types.Struct)
		if !ok {
			return nil, true
		}
		if al, isAlloc := a.X.(*ssa.Alloc); isAlloc && !al.Heap {
			return nil, false
		}
		return []string{"H." + vc.structName(pt.Elem(), st) + "." + st.Field(a.Field).Name()}, false
	case *ssa.IndexAddr:
		switch u := a.X.Type().Underlying().(type) {
		case *types.Slice:
			return []string{"Elems." + sortKey(vc.sortOf(u.Elem()))}, false
		case *types.Pointer:
			switch a.X.(type) {
			case *ssa.FieldAddr, *ssa.IndexAddr:
				return m.rootArrays(a.X)
			}
			if at, ok := u.Elem().Underlying().(*types.Array); ok {
				return []string{"Elems." + sortKey(vc.sortOf(at.Elem()))}, false
			}
		}
		return nil, true
	case *ssa.Alloc:
		if !a.Heap {
			return nil, false
		}
	}
	pt, ok := addr.Type().Underlying().(*types.Pointer)
	if !ok {
		return nil, true
	}
	switch u := pt.Elem().Underlying().(type) {
	case *types.Struct:
		for i := 0; i < u.NumFields(); i++ {
			names = append(names, "H."+vc.structName(pt.Elem(), u)+"."+u.Field(i).Name())
		}
		return names, false
	case *types.Array:
		return []string{"Elems." + sortKey(vc.sortOf(u.Elem()))}, false
	}
	return []string{"Cell." + sortKey(vc.sortOf(pt.Elem()))}, false
}

func (m *modInfo) mapArrays(t types.Type) []string {
	mt, ok := t.Underlying().(*types.Map)
	if !ok {
		return nil
	}
	ks, vs := m.namer.sortOf(mt.Key()), m.namer.sortOf(mt.Elem())
	key := sortKey(ks) + "." + sortKey(vs)
	return []string{"MapDom." + key, "MapVal." + key, "MapLen"}
}

func (m *modInfo) scan(c *Ctx, f *ssa.Function) {
	for _, b := range f.Blocks {
		for _, in := range b.Instrs {
			switch i := in.(type) {
			case *ssa.Store:
				ns, all := m.rootArrays(i.Addr)
				if all {
					m.all[f] = true
				}
				for _, n := range ns {
					m.add(f, n)
				}
			case *ssa.MapUpdate:
				for _, n := range m.mapArrays(i.Map.Type()) {
					m.add(f, n)
				}
			case *ssa.Call, *ssa.Defer, *ssa.Go:
				var cc *ssa.CallCommon
				switch x := in.(type) {
				case *ssa.Call:
					cc = x.Common()
				case *ssa.Defer:
					cc = x.Common()
				case *ssa.Go:
					cc = x.Common()
				}
				if bi, ok := cc.Value.(*ssa.Builtin); ok {
					switch bi.Name() {
					case "delete", "clear":
						for _, n := range m.mapArrays(cc.Args[0].Type()) {
							m.add(f, n)
						}
						if st, ok := cc.Args[0].Type().Underlying().(*types.Slice); ok {
							m.add(f, "Elems."+sortKey(m.namer.sortOf(st.Elem())))
						}
					case "append", "copy":
						if st, ok := cc.Args[0].Type().Underlying().(*types.Slice); ok {
							m.add(f, "Elems."+sortKey(m.namer.sortOf(st.Elem())))
						}
					}
					continue
				}
				cal := cc.StaticCallee()
				if cal == nil && !cc.IsInvoke() {
					// call through a func value: targets are over-approximated by the
					// function-value edges of the graph only if the value is created here;
					// otherwise anything may run
					if _, isClo := cc.Value.(*ssa.MakeClosure); !isClo {
						m.all[f] = true
					}
					continue
				}
				if cal != nil && !c.inScope(cal) {
					// library call: may write through pointer / slice arguments (A-EXT)
					full := cal.String()
					if strings.HasPrefix(full, "(reflect.Value).Set") || full == "reflect.Copy" || strings.HasPrefix(full, "unsafe.") ||
						strings.Contains(full, "codec.") || strings.HasPrefix(full, "encoding/") || strings.HasPrefix(full, "(*encoding/") {
						m.all[f] = true
					}
					for _, a := range cc.Args {
						switch u := a.Type().Underlying().(type) {
						case *types.Pointer:
							if _, isSt := u.Elem().Underlying().(*types.Struct); !isSt {
								ns, all := m.rootArrays(a)
								if all {
									m.all[f] = true
								}
								for _, n := range ns {
									m.add(f, n)
								}
							}
						case *types.Slice:
							m.add(f, "Elems."+sortKey(m.namer.sortOf(u.Elem())))
						case *types.Signature:
							m.all[f] = true
						case *types.Interface:
							// a zygo value handed to a library as an interface (e.g. a decoder target)
							if strings.Contains(full, "Unmarshal") || strings.Contains(full, "Decode") {
								m.all[f] = true
							}
						}
					}
				}
			case *ssa.UnOp:
				if i.Op == token.ARROW {
					continue
				}
			}
		}
	}
}

// closure returns the transitive may-write set of f.  All sets are computed
// together, once, by a worklist fixpoint over the reversed call graph with
// bit sets (one bit per heap-array name).
func (m *modInfo) closure(c *Ctx, f *ssa.Function) (map[string]bool, bool) {
	if m.bits == nil {
		m.solve()
	}
	if s, ok := m.closed[f]; ok {
		return s, m.closedAll[f]
	}
	out := map[string]bool{}
	if b, ok := m.bits[f]; ok {
		for i, w := range b {
			for j := 0; j < 64; j++ {
				if w&(1<<uint(j)) != 0 {
					out[m.names[i*64+j]] = true
				}
			}
		}
	}
	m.closed[f] = out
	m.closedAll[f] = m.allBits[f]
	return out, m.allBits[f]
}

func (m *modInfo) solve() {
	idx := map[string]int{}
	for _, d := range m.direct {
		for n := range d {
			if _, ok := idx[n]; !ok {
				idx[n] = len(m.names)
				m.names = append(m.names, n)
			}
		}
	}
	words := (len(m.names) + 63) / 64
	m.bits = map[*ssa.Function][]uint64{}
	m.allBits = map[*ssa.Function]bool{}
	pred := map[*ssa.Function][]*ssa.Function{}
	nodes := map[*ssa.Function]bool{}
	for f, ss := range m.graph.succ {
		nodes[f] = true
		for _, t := range ss {
			nodes[t] = true
			pred[t] = append(pred[t], f)
		}
	}
	for f := range m.direct {
		nodes[f] = true
	}
	for f := range m.all {
		nodes[f] = true
	}
	var work []*ssa.Function
	for f := range nodes {
		b := make([]uint64, words)
		for n := range m.direct[f] {
			i := idx[n]
			b[i/64] |= 1 << uint(i%64)
		}
		m.bits[f] = b
		m.allBits[f] = m.all[f]
		work = append(work, f)
	}
	inWork := map[*ssa.Function]bool{}
	for _, f := range work {
		inWork[f] = true
	}
	for len(work) > 0 {
		g := work[len(work)-1]
		work = work[:len(work)-1]
		inWork[g] = false
		gb := m.bits[g]
		for _, p := range pred[g] {
			pb := m.bits[p]
			changed := false
			for i := range gb {
				if n := pb[i] | gb[i]; n != pb[i] {
					pb[i] = n
					changed = true
				}
			}
			if m.allBits[g] && !m.allBits[p] {
				m.allBits[p] = true
				changed = true
			}
			if changed && !inWork[p] {
				inWork[p] = true
				work = append(work, p)
			}
		}
	}
}
