package main

// modref.go: a may-write (mod) analysis over the SSA call graph.  For every
// function it computes the set of heap arrays (in the VC's naming: one array
// per struct field, per cell sort, per slice-element sort, per map type) that
// the function or anything it can reach may write.  An abstracted call then
// havocs only those arrays instead of the whole heap.  The call graph is the
// over-approximation used for the effect scan: static calls, closure creation,
// function-value references and interface dispatch.

import (
	"go/token"
	"go/types"
	"strings"

	"golang.org/x/tools/go/ssa"
)

type modInfo struct {
	direct map[*ssa.Function]map[string]bool
	all    map[*ssa.Function]bool // may write anything (reflection, unsafe, unknown dynamic calls)
	closed map[*ssa.Function]map[string]bool
	closedAll map[*ssa.Function]bool
	graph  *effGraph
	namer  *VC
}

func (c *Ctx) modsets() *modInfo {
	if c.mod != nil {
		return c.mod
	}
	var any *ssa.Function
	for _, f := range c.funcs {
		if f.Blocks != nil {
			any = f
			break
		}
	}
	m := &modInfo{direct: map[*ssa.Function]map[string]bool{}, all: map[*ssa.Function]bool{}, closed: map[*ssa.Function]map[string]bool{}, closedAll: map[*ssa.Function]bool{}}
	m.namer = c.newVC(any, nil)
	m.graph = c.buildEffGraph()
	for f := range c.allFuncs {
		if !c.inScope(f) || f.Blocks == nil {
			continue
		}
		m.scan(c, f)
	}
	c.mod = m
	return m
}

func (m *modInfo) add(f *ssa.Function, name string) {
	if m.direct[f] == nil {
		m.direct[f] = map[string]bool{}
	}
	m.direct[f][name] = true
}

// rootArrays: heap arrays a store through addr may write
func (m *modInfo) rootArrays(addr ssa.Value) (names []string, everything bool) {
	vc := m.namer
	switch a := addr.(type) {
	case *ssa.FieldAddr:
		switch a.X.(type) {
		case *ssa.FieldAddr, *ssa.IndexAddr:
			return m.rootArrays(a.X)
		}
		pt, ok := a.X.Type().Underlying().(*types.Pointer)
		if !ok {
			return nil, true
		}
		st, ok := pt.Elem().Underlying().(*types.Struct)
		if !ok {
			return nil, true
		}
		if al, isAlloc := a.X.(*ssa.Alloc); isAlloc && !al.Heap {
			return nil, false
		}
		return []string{"H." + vc.structName(pt.Elem(), st) + "." + st.Field(a.Field).Name()}, false
	case *ssa.IndexAddr:
		switch u := a.X.Type().Underlying().(type) {
		case *types.Slice:
			return []string{"Elems." + sortKey(vc.sortOf(u.Elem()))}, false
		case *types.Pointer:
			switch a.X.(type) {
			case *ssa.FieldAddr, *ssa.IndexAddr:
				return m.rootArrays(a.X)
			}
			if at, ok := u.Elem().Underlying().(*types.Array); ok {
				return []string{"Elems." + sortKey(vc.sortOf(at.Elem()))}, false
			}
		}
		return nil, true
	case *ssa.Alloc:
		if !a.Heap {
			return nil, false
		}
	}
	pt, ok := addr.Type().Underlying().(*types.Pointer)
	if !ok {
		return nil, true
	}
	switch u := pt.Elem().Underlying().(type) {
	case *types.Struct:
		for i := 0; i < u.NumFields(); i++ {
			names = append(names, "H."+vc.structName(pt.Elem(), u)+"."+u.Field(i).Name())
		}
		return names, false
	case *types.Array:
		return []string{"Elems." + sortKey(vc.sortOf(u.Elem()))}, false
	}
	return []string{"Cell." + sortKey(vc.sortOf(pt.Elem()))}, false
}

func (m *modInfo) mapArrays(t types.Type) []string {
	mt, ok := t.Underlying().(*types.Map)
	if !ok {
		return nil
	}
	ks, vs := m.namer.sortOf(mt.Key()), m.namer.sortOf(mt.Elem())
	key := sortKey(ks) + "." + sortKey(vs)
	return []string{"MapDom." + key, "MapVal." + key, "MapLen"}
}

func (m *modInfo) scan(c *Ctx, f *ssa.Function) {
	for _, b := range f.Blocks {
		for _, in := range b.Instrs {
			switch i := in.(type) {
			case *ssa.Store:
				ns, all := m.rootArrays(i.Addr)
				if all {
					m.all[f] = true
				}
				for _, n := range ns {
					m.add(f, n)
				}
			case *ssa.MapUpdate:
				for _, n := range m.mapArrays(i.Map.Type()) {
					m.add(f, n)
				}
			case *ssa.Call, *ssa.Defer, *ssa.Go:
				var cc *ssa.CallCommon
				switch x := in.(type) {
				case *ssa.Call:
					cc = x.Common()
				case *ssa.Defer:
					cc = x.Common()
				case *ssa.Go:
					cc = x.Common()
				}
				if bi, ok := cc.Value.(*ssa.Builtin); ok {
					switch bi.Name() {
					case "delete", "clear":
						for _, n := range m.mapArrays(cc.Args[0].Type()) {
							m.add(f, n)
						}
						if st, ok := cc.Args[0].Type().Underlying().(*types.Slice); ok {
							m.add(f, "Elems."+sortKey(m.namer.sortOf(st.Elem())))
						}
					case "append", "copy":
						if st, ok := cc.Args[0].Type().Underlying().(*types.Slice); ok {
							m.add(f, "Elems."+sortKey(m.namer.sortOf(st.Elem())))
						}
					}
					continue
				}
				cal := cc.StaticCallee()
				if cal == nil && !cc.IsInvoke() {
					// call through a func value: targets are over-approximated by the
					// function-value edges of the graph only if the value is created here;
					// otherwise anything may run
					if _, isClo := cc.Value.(*ssa.MakeClosure); !isClo {
						m.all[f] = true
					}
					continue
				}
				if cal != nil && !c.inScope(cal) {
					// library call: may write through pointer / slice arguments (A-EXT)
					full := cal.String()
					if strings.HasPrefix(full, "(reflect.Value).Set") || full == "reflect.Copy" || strings.HasPrefix(full, "unsafe.") ||
						strings.Contains(full, "codec.") || strings.HasPrefix(full, "encoding/") || strings.HasPrefix(full, "(*encoding/") {
						m.all[f] = true
					}
					for _, a := range cc.Args {
						switch u := a.Type().Underlying().(type) {
						case *types.Pointer:
							if _, isSt := u.Elem().Underlying().(*types.Struct); !isSt {
								ns, all := m.rootArrays(a)
								if all {
									m.all[f] = true
								}
								for _, n := range ns {
									m.add(f, n)
								}
							}
						case *types.Slice:
							m.add(f, "Elems."+sortKey(m.namer.sortOf(u.Elem())))
						case *types.Signature:
							m.all[f] = true
						case *types.Interface:
							// a zygo value handed to a library as an interface (e.g. a decoder target)
							if strings.Contains(full, "Unmarshal") || strings.Contains(full, "Decode") {
								m.all[f] = true
							}
						}
					}
				}
			case *ssa.UnOp:
				if i.Op == token.ARROW {
					continue
				}
			}
		}
	}
}

// closure computes the transitive may-write set of f.
func (m *modInfo) closure(c *Ctx, f *ssa.Function) (map[string]bool, bool) {
	if s, ok := m.closed[f]; ok {
		return s, m.closedAll[f]
	}
	seen := map[*ssa.Function]bool{f: true}
	work := []*ssa.Function{f}
	out := map[string]bool{}
	all := false
	for len(work) > 0 {
		g := work[len(work)-1]
		work = work[:len(work)-1]
		if m.all[g] {
			all = true
			break
		}
		for n := range m.direct[g] {
			out[n] = true
		}
		for _, t := range m.graph.succ[g] {
			if !seen[t] {
				seen[t] = true
				work = append(work, t)
			}
		}
	}
	m.closed[f] = out
	m.closedAll[f] = all
	return out, all
}
