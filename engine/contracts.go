package main

// contracts.go: parser for the //@ contract file
// (/repo/zygo/zz_contracts_verif.go, comment-only, //go:build verif).
//
// Grammar (one clause per //@ line, continuation lines start with "//@ |"):
//
//   //@ spec name(a T, b U) R = expr
//   //@ func <FuncName>            receiver-qualified: (*Stack).Push, Zlisp.Compare ...
//   //@ [Cxx[,Cyy]] requires [label:] expr
//   //@ [Cxx] ensures [label:] expr
//   //@ [Cxx] nopanic
//   //@ [Cxx] modifies loc, loc, ...     (nothing | everything | p.f | *p | elems(s) | map(m))
//   //@ [Cxx] loop N invariant [label:] expr
//   //@ [Cxx] assert label @before|@after call Callee[k]: expr
//   //@ ghost name := expr @before|@after call Callee[k]
//   //@ pure | trusted | effects none|world
//   //@ [Cxx] calls Callee[k] with expr            (pre@call argument obligations)
//   //@ lemma name: expr                          (under "func" = uses its requires)

import (
	"bufio"
	"fmt"
	"os"
	"regexp"
	"strconv"
	"strings"
)

type Clause struct {
	Kind      string   // requires ensures nopanic modifies invariant assert ghost pure trusted effects lemma
	Props     []string // property tags
	Label     string
	Expr      string
	Loop      int
	When      string // before|after
	Callee    string
	CallK     int
	Name      string // ghost name
	Line      int
	used      bool
	TypeInv   bool   // requires clause that restates a type invariant
	TypeInvOf string // the type whose invariant it restates ("" = any)
	Assumed   bool   // "assume ..." clause: used at call sites, never verified (listed as trusted)
}

type FuncContract struct {
	Name    string
	Clauses []*Clause
	Line    int
}

type SpecFn struct {
	Name   string
	Params []string // names
	PTypes []string // Go type expressions
	RType  string
	Body   string
	Line   int
	Macro  bool
}

type SweepDirective struct {
	Prop  string
	File  string   // source file (base name) whose functions are swept
	Funcs []string // or explicit function names
	Reach bool     // also everything reachable by calls from the swept set
}

// TypeInv is a data-structure invariant: assumed for every value of *Type that a
// non-owner function reads; owners (the only functions allowed to write the
// listed fields, the maps/slices stored in them, or to allocate the type) carry
// it explicitly in their own contracts.  The "only owners write" condition is a
// frame obligation decided on the SSA (scan.go).
type TypeInv struct {
	Prop        string
	Type        string
	Fields      []string
	Owners      []string
	Preserving  []string
	Expr        string
	Line        int
	WritersOnly bool // "writers" directive: write funnel only (no modelling consequence)
	Stable      bool // "stable" directive: the fields are written only by constructors, on objects they allocate
}

type GuardDirective struct {
	Prop, Kind, Arg string
}

type EffectDirective struct {
	Prop, Kind string
	Funcs      []string
	Expr       string
}

type PropFile struct{ Prop, File, Re string }

type MapOrderDirective struct{ Prop, File string }

// ErrSourcesDirective: the callees whose error result may become Func's error result (a reviewed list)
type ErrSourcesDirective struct {
	Prop, Func, Allowed string
}

// CycleGuardDirective: implementations of Method that recurse into contained values must consult
// the traversal memory (Guard, then Mark) before they do; Acyclic lists the implementations that
// recurse but whose containers no script can make cyclic
type CycleGuardDirective struct {
	Prop, Method, Guard, Mark string
	Acyclic                   []string
}

// CallersDirective: the functions that may call Callee directly (a call funnel)
type CallersDirective struct {
	Prop, Callee string
	Allowed      []string
}

// FieldsClosedDirective: the complete field list of a struct type (new state must be reviewed)
type FieldsClosedDirective struct {
	Prop, Type string
	Fields     []string
}

// GlobalStateDirective: the package-level variables that may change after initialisation
type GlobalStateDirective struct {
	Prop    string
	Allowed []string
}

type ResetDirective struct {
	Prop, Type, Reset string
	Readers, Ignore   []string
}

type ClauseAll struct {
	Re, Clause string
	Line       int
}

type EnsuresAll struct {
	Invariant             bool
	Prop, Re, Label, Expr string
	Line                  int
}

type ContractFile struct {
	MapOrders    []MapOrderDirective
	OrderState   []string        // named types that are traversal memory (orderstate directive)
	NilSweep     map[string]bool // properties whose sweep also asks for nil-result dereferences
	GlobalStates []GlobalStateDirective
	FieldsClosed []FieldsClosedDirective
	Callers      []CallersDirective
	CycleGuards  []CycleGuardDirective
	ErrSources   []ErrSourcesDirective
	Resets       []ResetDirective
	ClauseAll    []ClauseAll
	EnsuresAll   []EnsuresAll
	PropFiles    []PropFile
	Effects      []EffectDirective
	Guards       []GuardDirective
	TypeInvs     []*TypeInv
	Sweeps       []SweepDirective
	Funcs        map[string]*FuncContract
	Order        []string
	Specs        map[string]*SpecFn
	SpecOrder    []string
	Raw          []string
}

var propTagRe = regexp.MustCompile(`^(C[0-9]{2}(?:,C[0-9]{2})*)\s+`)
var callRefRe = regexp.MustCompile(`^@(before|after)\s+call\s+([^\[\s]+)\[(\d+|\*)\]\s*:?\s*`)
var labelRe = regexp.MustCompile(`^([A-Za-z][A-Za-z0-9_.\-]*):\s+`)

func parseContracts(path string) (*ContractFile, error) {
	f, err := os.Open(path)
	if err != nil {
		return nil, err
	}
	defer f.Close()
	cf := &ContractFile{Funcs: map[string]*FuncContract{}, Specs: map[string]*SpecFn{}}
	sc := bufio.NewScanner(f)
	sc.Buffer(make([]byte, 1<<20), 1<<20)
	var lines []string
	var lnos []int
	ln := 0
	for sc.Scan() {
		ln++
		t := strings.TrimSpace(sc.Text())
		if !strings.HasPrefix(t, "//@") {
			continue
		}
		t = strings.TrimSpace(strings.TrimPrefix(t, "//@"))
		if t == "" {
			continue
		}
		if strings.HasPrefix(t, "|") && len(lines) > 0 {
			lines[len(lines)-1] += " " + strings.TrimSpace(t[1:])
			continue
		}
		// strip trailing line comments "  // ..."
		if i := strings.Index(t, " // "); i >= 0 {
			t = strings.TrimSpace(t[:i])
		}
		lines = append(lines, t)
		lnos = append(lnos, ln)
	}
	if err := processContractLines(cf, lines, lnos); err != nil {
		return nil, err
	}
	return cf, nil
}

// processContractLines interprets contract lines (also used for lines
// synthesised by "clauseall" directives).
func processContractLines(cf *ContractFile, lines []string, lnos []int) error {
	var cur *FuncContract
	for i, t := range lines {
		no := lnos[i]
		switch {
		case strings.HasPrefix(t, "spec "), strings.HasPrefix(t, "macro "):
			sp, err := parseSpec(strings.TrimSpace(t[strings.Index(t, " "):]))
			if err != nil {
				return fmt.Errorf("line %d: %v", no, err)
			}
			sp.Line = no
			sp.Macro = strings.HasPrefix(t, "macro ")
			cf.Specs[sp.Name] = sp
			cf.SpecOrder = append(cf.SpecOrder, sp.Name)
			continue
		case strings.HasPrefix(t, "effects C"):
			fs := strings.Fields(t)
			if len(fs) < 4 {
				return fmt.Errorf("line %d: bad effects directive", no)
			}
			d := EffectDirective{Prop: fs[1], Kind: fs[2]}
			rest := strings.TrimSpace(strings.SplitN(t, fs[2], 2)[1])
			if d.Kind == "guarded" {
				parts := strings.SplitN(rest, " unless ", 2)
				if len(parts) != 2 {
					return fmt.Errorf("line %d: effects guarded F unless expr", no)
				}
				d.Funcs = []string{strings.TrimSpace(parts[0])}
				d.Expr = strings.TrimSpace(parts[1])
			} else {
				for _, f := range strings.Split(rest, ",") {
					if f = strings.TrimSpace(f); f != "" {
						d.Funcs = append(d.Funcs, f)
					}
				}
			}
			cf.Effects = append(cf.Effects, d)
			cur = nil
			continue
		case strings.HasPrefix(t, "errorsources "):
			// errorsources Cxx Func | regexp of callee names
			parts := strings.SplitN(strings.TrimPrefix(t, "errorsources "), "|", 2)
			hd := strings.Fields(parts[0])
			if len(parts) != 2 || len(hd) != 2 {
				return fmt.Errorf("line %d: errorsources Cxx Func | regexp", no)
			}
			cf.ErrSources = append(cf.ErrSources, ErrSourcesDirective{Prop: hd[0], Func: hd[1], Allowed: strings.TrimSpace(parts[1])})
			cur = nil
			continue
		case strings.HasPrefix(t, "cycleguard "):
			// cycleguard Cxx Method | GuardFn | MarkFn | acyclic impl, impl, ...
			parts := strings.Split(strings.TrimPrefix(t, "cycleguard "), "|")
			hd := strings.Fields(parts[0])
			if len(parts) != 4 || len(hd) != 2 {
				return fmt.Errorf("line %d: cycleguard Cxx Method | GuardFn | MarkFn | acyclic implementations", no)
			}
			d := CycleGuardDirective{Prop: hd[0], Method: hd[1], Guard: strings.TrimSpace(parts[1]), Mark: strings.TrimSpace(parts[2])}
			for _, f := range strings.Split(parts[3], ",") {
				if f = strings.TrimSpace(f); f != "" {
					d.Acyclic = append(d.Acyclic, f)
				}
			}
			cf.CycleGuards = append(cf.CycleGuards, d)
			cur = nil
			continue
		case strings.HasPrefix(t, "callers "):
			// callers Cxx Callee | caller, caller, ...
			parts := strings.SplitN(strings.TrimPrefix(t, "callers "), "|", 2)
			hd := strings.Fields(parts[0])
			if len(parts) != 2 || len(hd) != 2 {
				return fmt.Errorf("line %d: callers Cxx Callee | allowed callers", no)
			}
			d := CallersDirective{Prop: hd[0], Callee: hd[1]}
			for _, f := range strings.Split(parts[1], ",") {
				if f = strings.TrimSpace(f); f != "" {
					d.Allowed = append(d.Allowed, f)
				}
			}
			cf.Callers = append(cf.Callers, d)
			cur = nil
			continue
		case strings.HasPrefix(t, "fieldsclosed "):
			// fieldsclosed Cxx Type | f1, f2, ...
			parts := strings.SplitN(strings.TrimPrefix(t, "fieldsclosed "), "|", 2)
			hd := strings.Fields(parts[0])
			if len(parts) != 2 || len(hd) != 2 {
				return fmt.Errorf("line %d: fieldsclosed Cxx Type | fields", no)
			}
			d := FieldsClosedDirective{Prop: hd[0], Type: hd[1]}
			for _, f := range strings.Split(parts[1], ",") {
				if f = strings.TrimSpace(f); f != "" {
					d.Fields = append(d.Fields, f)
				}
			}
			cf.FieldsClosed = append(cf.FieldsClosed, d)
			cur = nil
			continue
		case strings.HasPrefix(t, "globalstate "):
			// globalstate Cxx | name, name, ...
			parts := strings.SplitN(strings.TrimPrefix(t, "globalstate "), "|", 2)
			if len(parts) != 2 {
				return fmt.Errorf("line %d: globalstate Cxx | allowed globals", no)
			}
			d := GlobalStateDirective{Prop: strings.TrimSpace(parts[0])}
			for _, f := range strings.Split(parts[1], ",") {
				if f = strings.TrimSpace(f); f != "" {
					d.Allowed = append(d.Allowed, f)
				}
			}
			cf.GlobalStates = append(cf.GlobalStates, d)
			cur = nil
			continue
		case strings.HasPrefix(t, "maporder "):
			fs := strings.Fields(t)
			if len(fs) != 3 {
				return fmt.Errorf("line %d: maporder Cxx file.go", no)
			}
			cf.MapOrders = append(cf.MapOrders, MapOrderDirective{fs[1], fs[2]})
			cur = nil
			continue
		case strings.HasPrefix(t, "nilsweep "):
			// nilsweep Cxx: swept functions also get panic.nil obligations where a call result,
			// a map lookup or a comma-ok result is dereferenced
			fs := strings.Fields(t)
			if len(fs) != 2 {
				return fmt.Errorf("line %d: nilsweep Cxx", no)
			}
			if cf.NilSweep == nil {
				cf.NilSweep = map[string]bool{}
			}
			cf.NilSweep[fs[1]] = true
			cur = nil
			continue
		case strings.HasPrefix(t, "orderstate "):
			// orderstate Cxx TypeName: values of *TypeName remember what a traversal has met
			fs := strings.Fields(t)
			if len(fs) != 3 {
				return fmt.Errorf("line %d: orderstate Cxx TypeName", no)
			}
			cf.OrderState = append(cf.OrderState, fs[2])
			cur = nil
			continue
		case strings.HasPrefix(t, "resets "):
			// resets Cxx Type | resetFunc | reader1, reader2 | ignored fields
			parts := strings.Split(strings.TrimPrefix(t, "resets "), "|")
			if len(parts) != 4 {
				return fmt.Errorf("line %d: resets Cxx Type | resetFunc | readers | ignored fields", no)
			}
			hd := strings.Fields(parts[0])
			if len(hd) != 2 {
				return fmt.Errorf("line %d: resets needs property and type", no)
			}
			d := ResetDirective{Prop: hd[0], Type: hd[1], Reset: strings.TrimSpace(parts[1])}
			for _, f := range strings.Split(parts[2], ",") {
				if f = strings.TrimSpace(f); f != "" {
					d.Readers = append(d.Readers, f)
				}
			}
			for _, f := range strings.Split(parts[3], ",") {
				if f = strings.TrimSpace(f); f != "" {
					d.Ignore = append(d.Ignore, f)
				}
			}
			cf.Resets = append(cf.Resets, d)
			cur = nil
			continue
		case strings.HasPrefix(t, "guard "):
			fs := strings.Fields(t)
			if len(fs) != 4 {
				return fmt.Errorf("line %d: guard Cxx recover Type.field", no)
			}
			cf.Guards = append(cf.Guards, GuardDirective{fs[1], fs[2], fs[3]})
			cur = nil
			continue
		case strings.HasPrefix(t, "stable "), strings.HasPrefix(t, "writers "):
			// stable Cxx Type | f1, f2 | constructor1, constructor2
			// writers Cxx Type | f1, f2 | w1, w2      (write funnel: only these functions write the fields)
			isWriters := strings.HasPrefix(t, "writers ")
			parts := strings.SplitN(strings.TrimSpace(t[strings.Index(t, " "):]), "|", 3)
			if len(parts) != 3 {
				return fmt.Errorf("line %d: stable Cxx Type | fields | constructors", no)
			}
			hd := strings.Fields(parts[0])
			if len(hd) != 2 {
				return fmt.Errorf("line %d: stable needs property and type", no)
			}
			ti := &TypeInv{Prop: hd[0], Type: hd[1], Expr: "", Line: no, Stable: !isWriters, WritersOnly: isWriters}
			for _, f := range strings.Split(parts[1], ",") {
				if f = strings.TrimSpace(f); f != "" {
					ti.Fields = append(ti.Fields, f)
				}
			}
			for _, f := range strings.Split(parts[2], ",") {
				if f = strings.TrimSpace(f); f != "" {
					ti.Owners = append(ti.Owners, f)
				}
			}
			cf.TypeInvs = append(cf.TypeInvs, ti)
			cur = nil
			continue
		case strings.HasPrefix(t, "typeinv "):
			// typeinv Cxx Type | f1, f2 | owner1, owner2 | expr
			parts := strings.SplitN(strings.TrimPrefix(t, "typeinv "), "|", 4)
			if len(parts) != 4 {
				return fmt.Errorf("line %d: typeinv Cxx Type | fields | owners | expr", no)
			}
			hd := strings.Fields(parts[0])
			if len(hd) != 2 {
				return fmt.Errorf("line %d: typeinv needs property and type", no)
			}
			ti := &TypeInv{Prop: hd[0], Type: hd[1], Expr: strings.TrimSpace(parts[3]), Line: no}
			for _, f := range strings.Split(parts[1], ",") {
				if f = strings.TrimSpace(f); f != "" {
					ti.Fields = append(ti.Fields, f)
				}
			}
			for _, f := range strings.Split(parts[2], ",") {
				if f = strings.TrimSpace(f); f != "" {
					if strings.HasSuffix(f, "!") {
						// preserving writer: may write the fields, must re-establish the
						// invariant right after each such write, and may assume it elsewhere
						ti.Preserving = append(ti.Preserving, strings.TrimSuffix(f, "!"))
					} else {
						ti.Owners = append(ti.Owners, f)
					}
				}
			}
			cf.TypeInvs = append(cf.TypeInvs, ti)
			cur = nil
			continue
		case strings.HasPrefix(t, "clauseall "):
			// clauseall <regexp over function names> :: <any clause line>
			parts := strings.SplitN(strings.TrimPrefix(t, "clauseall "), " :: ", 2)
			if len(parts) != 2 {
				return fmt.Errorf("line %d: clauseall regexp :: clause", no)
			}
			cf.ClauseAll = append(cf.ClauseAll, ClauseAll{Re: strings.TrimSpace(parts[0]), Clause: strings.TrimSpace(parts[1]), Line: no})
			cur = nil
			continue
		case strings.HasPrefix(t, "ensuresall "), strings.HasPrefix(t, "invariantall "):
			// ensuresall Cxx <regexp over function names> <label>: <expr>
			// invariantall ...: the same expression as an invariant of every loop of those functions
			isInv := strings.HasPrefix(t, "invariantall ")
			rest := strings.TrimSpace(t[strings.Index(t, " "):])
			fs := strings.SplitN(rest, " ", 3)
			if len(fs) != 3 {
				return fmt.Errorf("line %d: ensuresall Cxx regexp label: expr", no)
			}
			m := labelRe.FindStringSubmatch(fs[2])
			if m == nil {
				return fmt.Errorf("line %d: ensuresall needs 'label: expr'", no)
			}
			cf.EnsuresAll = append(cf.EnsuresAll, EnsuresAll{Prop: fs[0], Re: fs[1], Label: m[1], Expr: fs[2][len(m[0]):], Line: no, Invariant: isInv})
			cur = nil
			continue
		case strings.HasPrefix(t, "propagatesfile "):
			fs := strings.Fields(t)
			if len(fs) != 4 {
				return fmt.Errorf("line %d: propagatesfile Cxx file.go regexp", no)
			}
			cf.PropFiles = append(cf.PropFiles, PropFile{fs[1], fs[2], fs[3]})
			cur = nil
			continue
		case strings.HasPrefix(t, "sweepreach "):
			// sweepreach Cxx  : also sweep what the swept functions reach by calls
			// sweepreach Cxx [except f, g, ...]
			fs := strings.Fields(t)
			if len(fs) < 2 {
				return fmt.Errorf("line %d: sweepreach Cxx [except f, g]", no)
			}
			d := SweepDirective{Prop: fs[1], Reach: true}
			if i := strings.Index(t, " except "); i >= 0 {
				for _, f := range strings.Split(t[i+len(" except "):], ",") {
					if f = strings.TrimSpace(f); f != "" {
						d.Funcs = append(d.Funcs, f)
					}
				}
			}
			cf.Sweeps = append(cf.Sweeps, d)
			cur = nil
			continue
		case strings.HasPrefix(t, "sweepfile "), strings.HasPrefix(t, "sweep "):
			fs := strings.Fields(t)
			if len(fs) < 3 {
				return fmt.Errorf("line %d: bad sweep directive", no)
			}
			d := SweepDirective{Prop: fs[1]}
			if fs[0] == "sweepfile" {
				d.File = fs[2]
			} else {
				for _, f := range strings.Split(strings.Join(fs[2:], " "), ",") {
					d.Funcs = append(d.Funcs, strings.TrimSpace(f))
				}
			}
			cf.Sweeps = append(cf.Sweeps, d)
			cur = nil
			continue
		case strings.HasPrefix(t, "func "):
			name := strings.TrimSpace(strings.TrimPrefix(t, "func "))
			if cf.Funcs[name] != nil {
				cur = cf.Funcs[name]
			} else {
				cur = &FuncContract{Name: name, Line: no}
				cf.Funcs[name] = cur
				cf.Order = append(cf.Order, name)
			}
			continue
		}
		if cur == nil {
			return fmt.Errorf("line %d: clause outside func: %s", no, t)
		}
		c := &Clause{Line: no, Loop: -1}
		if strings.HasPrefix(t, "assume ") {
			c.Assumed = true
			t = strings.TrimSpace(strings.TrimPrefix(t, "assume "))
		}
		if m := propTagRe.FindStringSubmatch(t); m != nil {
			c.Props = strings.Split(m[1], ",")
			t = t[len(m[0]):]
		}
		if strings.HasPrefix(t, "assume ") {
			c.Assumed = true
			t = strings.TrimSpace(strings.TrimPrefix(t, "assume "))
		}
		word, rest := t, ""
		if j := strings.IndexAny(t, " \t"); j >= 0 {
			word, rest = t[:j], strings.TrimSpace(t[j+1:])
		}
		switch word {
		case "requires", "ensures", "lemma":
			c.Kind = word
			if word == "requires" && (strings.HasPrefix(rest, "typeinv ") || strings.HasPrefix(rest, "typeinv[")) {
				// restates a declared type invariant: established by the typeinv
				// frame.write argument, not re-proved at every (non-owner) call site
				c.TypeInv = true
				rest = strings.TrimSpace(strings.TrimPrefix(rest, "typeinv"))
				if strings.HasPrefix(rest, "[") {
					if j := strings.Index(rest, "]"); j > 0 {
						c.TypeInvOf = rest[1:j]
						rest = strings.TrimSpace(rest[j+1:])
					}
				}
			}
			if m := labelRe.FindStringSubmatch(rest); m != nil {
				c.Label = m[1]
				rest = rest[len(m[0]):]
			}
			c.Expr = rest
		case "propagates":
			// [Cxx] propagates <regexp of callee names>: a non-nil error returned by any
			// matching callee must make this function return a non-nil error
			c.Kind = "propagates"
			c.Expr = rest
		case "nopanic", "pure", "trusted", "nonil", "fparith", "noautoinv":
			c.Kind = word
			c.Expr = rest
		case "effects":
			c.Kind = "effects"
			c.Expr = rest
		case "modifies":
			c.Kind = "modifies"
			c.Expr = rest
		case "preserves":
			// preserves Type.field [except e1, e2]: whatever else the function changes, that
			// field keeps its value in every object other than the listed ones
			c.Kind = "preserves"
			c.Expr = rest
		case "loop":
			// loop N invariant [label:] expr
			parts := strings.SplitN(rest, " ", 3)
			if len(parts) < 3 || parts[1] != "invariant" {
				return fmt.Errorf("line %d: bad loop clause", no)
			}
			n, err := strconv.Atoi(parts[0])
			if err != nil {
				return fmt.Errorf("line %d: bad loop ordinal", no)
			}
			c.Kind = "invariant"
			c.Loop = n
			rest = strings.TrimSpace(parts[2])
			if m := labelRe.FindStringSubmatch(rest); m != nil {
				c.Label = m[1]
				rest = rest[len(m[0]):]
			}
			c.Expr = rest
		case "assert":
			c.Kind = "assert"
			sp := strings.SplitN(rest, " ", 2)
			c.Label = sp[0]
			if len(sp) < 2 {
				return fmt.Errorf("line %d: bad assert", no)
			}
			rest = strings.TrimSpace(sp[1])
			m := callRefRe.FindStringSubmatch(rest)
			if m == nil {
				return fmt.Errorf("line %d: assert needs @before/@after call F[k]:", no)
			}
			c.When, c.Callee = m[1], m[2]
			if m[3] == "*" {
				c.CallK = -1 // every call of that callee
			} else {
				c.CallK, _ = strconv.Atoi(m[3])
			}
			c.Expr = rest[len(m[0]):]
		case "ghost":
			c.Kind = "ghost"
			// name := expr @before call F[k]
			j := strings.Index(rest, ":=")
			if j < 0 {
				return fmt.Errorf("line %d: bad ghost", no)
			}
			c.Name = strings.TrimSpace(rest[:j])
			rest = strings.TrimSpace(rest[j+2:])
			if strings.HasSuffix(rest, "@entry") {
				c.When = "entry"
				c.Expr = strings.TrimSpace(strings.TrimSuffix(rest, "@entry"))
				cur.Clauses = append(cur.Clauses, c)
				continue
			}
			k := strings.LastIndex(rest, "@")
			if k < 0 {
				return fmt.Errorf("line %d: ghost needs @before/@after", no)
			}
			m := callRefRe.FindStringSubmatch(rest[k:])
			if m == nil {
				return fmt.Errorf("line %d: bad ghost call ref", no)
			}
			c.When, c.Callee = m[1], m[2]
			if m[3] == "*" {
				c.CallK = -1 // every call of that callee
			} else {
				c.CallK, _ = strconv.Atoi(m[3])
			}
			c.Expr = strings.TrimSpace(rest[:k])
		default:
			return fmt.Errorf("line %d: unknown clause %q", no, word)
		}
		cur.Clauses = append(cur.Clauses, c)
	}
	return nil
}

var specRe = regexp.MustCompile(`^([A-Za-z_][A-Za-z0-9_]*)\((.*?)\)\s*([^=]+?)\s*=\s*(.*)$`)

func parseSpec(s string) (*SpecFn, error) {
	m := specRe.FindStringSubmatch(s)
	if m == nil {
		return nil, fmt.Errorf("bad spec: %s", s)
	}
	sp := &SpecFn{Name: m[1], RType: strings.TrimSpace(m[3]), Body: m[4]}
	if strings.TrimSpace(m[2]) != "" {
		for _, p := range strings.Split(m[2], ",") {
			fs := strings.Fields(strings.TrimSpace(p))
			if len(fs) != 2 {
				return nil, fmt.Errorf("bad spec param %q", p)
			}
			sp.Params = append(sp.Params, fs[0])
			sp.PTypes = append(sp.PTypes, fs[1])
		}
	}
	return sp, nil
}

func (fc *FuncContract) has(kind string) bool {
	if fc == nil {
		return false
	}
	for _, c := range fc.Clauses {
		if c.Kind == kind {
			return true
		}
	}
	return false
}

// own returns the clauses of a kind that are to be VERIFIED against the body
// (assumed clauses excluded).
func (fc *FuncContract) own(kind string) []*Clause {
	var out []*Clause
	for _, c := range fc.clauses(kind) {
		if !c.Assumed {
			out = append(out, c)
		}
	}
	return out
}

func (fc *FuncContract) clauses(kind string) []*Clause {
	if fc == nil {
		return nil
	}
	var out []*Clause
	for _, c := range fc.Clauses {
		if c.Kind == kind {
			out = append(out, c)
		}
	}
	return out
}

func hasProp(c *Clause, prop string) bool {
	if prop == "" {
		return true
	}
	for _, p := range c.Props {
		if p == prop {
			return true
		}
	}
	return false
}

// rewriteImplies turns "a ==> b" into "implies(a, b)" (right associative,
// lowest precedence) at every parenthesis depth, so go/parser can read it.
func rewriteImplies(s string) string {
	// First recurse into parenthesised groups.
	var out strings.Builder
	depth := 0
	start := -1
	inStr := false
	for i := 0; i < len(s); i++ {
		ch := s[i]
		if ch == '"' {
			inStr = !inStr
		}
		if inStr {
			if depth == 0 {
				out.WriteByte(ch)
			}
			continue
		}
		switch ch {
		case '(', '[':
			if depth == 0 {
				out.WriteByte(ch)
				start = i + 1
			}
			depth++
		case ')', ']':
			depth--
			if depth == 0 {
				inner := s[start:i]
				parts := splitTop(inner, ',')
				for j, p := range parts {
					if j > 0 {
						out.WriteByte(',')
					}
					out.WriteString(rewriteImplies(p))
				}
				out.WriteByte(ch)
			}
		default:
			if depth == 0 {
				out.WriteByte(ch)
			}
		}
	}
	t := out.String()
	parts := splitTopStr(t, "==>")
	if len(parts) == 1 {
		return t
	}
	res := strings.TrimSpace(parts[len(parts)-1])
	for i := len(parts) - 2; i >= 0; i-- {
		res = "implies(" + strings.TrimSpace(parts[i]) + ", " + res + ")"
	}
	return res
}

func splitTop(s string, sep byte) []string {
	var parts []string
	depth := 0
	last := 0
	inStr := false
	for i := 0; i < len(s); i++ {
		ch := s[i]
		if ch == '"' {
			inStr = !inStr
		}
		if inStr {
			continue
		}
		switch ch {
		case '(', '[', '{':
			depth++
		case ')', ']', '}':
			depth--
		default:
			if ch == sep && depth == 0 {
				parts = append(parts, s[last:i])
				last = i + 1
			}
		}
	}
	parts = append(parts, s[last:])
	return parts
}

func splitTopStr(s, sep string) []string {
	var parts []string
	depth := 0
	last := 0
	inStr := false
	for i := 0; i < len(s); i++ {
		ch := s[i]
		if ch == '"' {
			inStr = !inStr
		}
		if inStr {
			continue
		}
		switch ch {
		case '(', '[', '{':
			depth++
		case ')', ']', '}':
			depth--
		default:
			if depth == 0 && strings.HasPrefix(s[i:], sep) {
				parts = append(parts, s[last:i])
				last = i + len(sep)
				i += len(sep) - 1
			}
		}
	}
	parts = append(parts, s[last:])
	return parts
}
