#!/bin/sh
# usage: mkmut.sh <PROP> <name> <expect-substring|none> [description]
# Turns the current uncommitted diff of /repo (zygo/*.go except the contract file)
# into /verif/mutants/<PROP>/<name>.patch and reverts those files.
set -e
prop=$1; name=$2; expect=$3; desc=$4
mkdir -p /verif/mutants/$prop
cd /repo
if git diff --quiet -- zygo/zz_contracts_verif.go; then :; else echo "uncommitted contract changes: commit them first"; exit 1; fi
( echo "# $desc"; echo "# expect: $expect"; git diff ) > /verif/mutants/$prop/$name.patch
git checkout -- .
echo "wrote /verif/mutants/$prop/$name.patch"
