#!/bin/sh
# runs the quick check of every claimed property; prints one line each
cd /verif
for p in $(python3 -c "import json;print(' '.join(c['property_id'] for c in json.load(open('MANIFEST.json'))['checks']))"); do
  ./bin/zvc check -prop $p -tier quick "$@" 2>&1 | tail -1
done
